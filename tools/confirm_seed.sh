#!/bin/bash
# confirm_seed.sh <worktree> <k> <seed-id> : confirms a seeded change (demo passes on pristine, fails with the patch,
# the library test-suite still passes with the patch) and stores it under /verif/seeded/<seed-id>/
set -u
FEATS=${FEATS:-}
WT=$1; K=$2; SID=$3
OUT=$WT/_out
cd $WT || exit 2
git checkout -q -- src; rm -rf tests; mkdir -p tests; cp $OUT/demo$K.rs tests/demo$K.rs
export CARGO_NET_OFFLINE=true
r0=$(cargo test --offline $FEATS --test demo$K 2>&1 | grep "^test result" | head -1)
git apply $OUT/patch$K.diff || { echo "patch does not apply"; exit 2; }
b=$(cargo build --offline 2>&1 | tail -1)
r1=$(cargo test --offline $FEATS --test demo$K 2>&1 | grep "^test result" | head -1)
r2=$(cargo test --offline --lib 2>&1 | grep "^test result" | head -1)
git checkout -q -- src; rm -rf tests
echo "pristine demo: $r0"; echo "mutated demo: $r1"; echo "mutated suite: $r2"
ok=1
echo "$r0" | grep -q "test result: ok" || ok=0
echo "$r1" | grep -q "FAILED" || ok=0
echo "$r2" | grep -q "ok. 161 passed; 0 failed" || ok=0
if [ $ok = 1 ]; then
  D=/verif/seeded/$SID; mkdir -p $D
  cp $OUT/patch$K.diff $D/patch.diff; cp $OUT/demo$K.rs $D/demo.rs
  python3 - "$OUT/meta$K.json" "$D/meta.json" "$r0" "$r1" "$r2" <<'PY'
import json,sys
m=json.load(open(sys.argv[1]))
m["confirmed"]={"pristine_demo":sys.argv[3],"mutated_demo":sys.argv[4],"mutated_suite":sys.argv[5],
 "ran":"in a scratch worktree of /repo: cargo test --offline --test demo (pristine: pass; with patch: fail); cargo test --offline --lib with patch (161 pass)"}
json.dump(m,open(sys.argv[2],"w"),indent=1)
PY
  echo "CONFIRMED -> $D"
else
  echo "NOT CONFIRMED"
fi
