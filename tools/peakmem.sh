#!/bin/bash
# peakmem.sh <vcheck args...> : runs vcheck and reports the peak RSS of every cbmc process by harness name
( cd /verif && ./vcheck "$@" --no-evidence > /tmp/peakmem_run.log 2>&1 ) &
pid=$!
declare -A peak
while kill -0 $pid 2>/dev/null; do
  while read -r rss name; do
    [ -z "$name" ] && continue
    if [ -z "${peak[$name]:-}" ] || [ "$rss" -gt "${peak[$name]}" ]; then peak[$name]=$rss; fi
  done < <(ps -eo rss,args | grep "[c]bmc --no-malloc" | sed -E 's/^ *([0-9]+) .*__[A-Za-z0-9_]*[0-9]{2}(c[0-9]{2}_[a-z0-9_]+)\.out.*/\1 \2/' | grep -E "^[0-9]+ c[0-9]{2}_")
  sleep 5
done
for k in "${!peak[@]}"; do printf "%-45s %6.1f GB\n" "$k" "$(echo "${peak[$k]}/1000000" | bc -l)"; done | sort
tail -3 /tmp/peakmem_run.log
