#!/bin/bash
# run_seed.sh <seed-id> <PROP> [tier] : runs the registered check of PROP against a seeded change, in a scratch worktree of
# /repo (the change is applied there, never in /repo) with a scratch copy of the harness crate.  Everything is removed afterwards.
set -u
SID=$1; PROP=$2; TIER=${3:-quick}
S=/tmp/seedrun/$SID
rm -rf $S; mkdir -p $S
git -C /repo worktree add -q --detach $S/repo HEAD || exit 2
git -C $S/repo apply /verif/seeded/$SID/patch.diff || { echo "patch does not apply"; git -C /repo worktree remove --force $S/repo; exit 2; }
# harness crate as committed (HEAD), not the working copy that may be mid-edit
mkdir -p $S/kani && git -C /verif archive HEAD kani/src kani/Cargo.toml | tar -x -C $S && cp /verif/kani/Cargo.lock $S/kani/
sed -i "s|path = \"/repo\"|path = \"$S/repo\"|" $S/kani/Cargo.toml
( cd /verif && VCHECK_REPO=$S/repo VCHECK_KANI_DIR=$S/kani VCHECK_OUT=$S/out ./vcheck $PROP --tier $TIER ) > $S/log 2>&1
rc=$?
{ echo "# ./vcheck $PROP --tier $TIER against seeded change $SID (exit $rc)"; grep -v "^  proved" $S/log; } > /verif/seeded/$SID/vcheck_$TIER.log
echo "$SID $PROP $TIER exit=$rc $(grep -c '^VIOLATION' $S/log) violation line(s)"
git -C /repo worktree remove --force $S/repo
rm -rf $S
exit 0
