#!/usr/bin/python3
"""Regenerates /verif/MANIFEST.json from the table below (kept here so that the manifest stays valid
and consistent while checks are added).  Run: python3 tools/gen_manifest.py"""
import json, os, subprocess

VERIF = os.path.dirname(os.path.dirname(os.path.abspath(__file__)))

TECH = ("bounded model checking of the real Rust code with Kani 0.68 (CBMC 6.11 + CaDiCaL): proof harnesses over symbolic "
        "inputs compiled against /repo's working tree, unwinding assertions on, counterexamples replayed natively")

# id -> (claimed?, level text, level note, design section)
CHECKS = {
 "C17": (True,
  "For every vector pair/triple inside the stated bounds (length <= 3, Hamming <= 4; integer-lattice or magnitude-ranged finite f32/f64 values) "
  "CBMC proves closed form, non-negativity, identity, bit-exact symmetry and the triangle inequality of the real Euclidian/Manhattan/Hamming/"
  "Mahalanobis code, the value of Minkowski of order 1..3 against its closed form (through a semantic powf stub: exact products, sqrt, cube-root specification), order 1 = Manhattan, and rejection of mismatched lengths and of order 0. Bounded: nothing is claimed for longer vectors.",
  "Trusts Kani/CBMC's MIR translation and float model (sqrt as modelled by CBMC on normal-range f32); Minkowski: powf is replaced by its mathematical meaning for the exponents 1, 2, 3, 1/2, 1/3 (std powf itself is trusted); Mahalanobis only for diagonal covariance.",
  "DESIGN.md 6/C17"),
 "C18": (True,
  "For every number of columns p <= 4 (6 thorough), every choice of up to 3-4 categorical columns at symbolic positions and symbolic category counts 1..3, "
  "CBMC proves that the real find_new_idxs places every column at col + sum(k_j - 1 for categorical j before col); make_one_hot and the category "
  "validity test are decided for all inputs. The HashMap-based fit/transform/CategoryMapper are outside (not encodable).",
  "Trusts Kani/CBMC; reaches the crate-private find_new_idxs through the cfg(feature=verif) hook; OneHotEncoder::{fit,transform} end-to-end and CategoryMapper identities are not covered (std HashMap does not finish in CBMC).",
  "DESIGN.md 6/C18"),
 "C01": (True,
  "LU: for every finite f32 2x2 input L is unit lower triangular, U upper triangular, P a permutation that picks the largest leading entry, multipliers <= 1; for every non-singular integer-lattice 2x2 / 3x3 matrix P*A = L*U, inverse and solve equal the exact rational solution. "
  "Cholesky: every symmetric 2x2 (any finite f64) with a diagonal entry <= -1 and every non-square input is rejected; for A = L0*L0^T from an integer factor the factor, U = L^T and the solve are recovered. QR: 1x1 at every binary scale 2.4e-7..1e12 and 2x1 lattice: Q orthonormal, Q*R = A, least-squares solve (2x2 thorough). "
  "SVD of one column (1x1, 2x1; 3x1 thorough): s >= 0 equals the column norm, U, V orthonormal, U*s*V^T = A; svd_solve returns the least-squares solution and, for a zero (rank-deficient) column, the minimum-norm solution 0. QR below machine epsilon is a known finding (C01-qr-absolute-epsilon). SVD with >= 2 columns, shapes above 3x3 and accuracy on non-lattice data are outside.",
  "Trusts Kani/CBMC incl. CBMC's f32 sqrt; hypot is stubbed by sqrt(x*x+y*y); error constructors are trapped (an unexpected Err is a violation); lattice domains make the real code's float arithmetic nearly exact so that small absolute tolerances are meaningful; nothing is claimed for SVD sweeps (>= 2 columns).",
  "DESIGN.md 6/C01"),
 "C04": (True,
  "Selection structure (HeapSelection, k <= 3, up to 5 arbitrary i8 adds; heapify k <= 4): holds exactly the k smallest as a multiset and peek is the k-th smallest after every add. Exhaustive scan LinearKNNSearch::find for n <= 3 and every k (n = 4 thorough) on a 1-D "
  "integer lattice with ties/duplicates: exactly k results, distinct true indices, true distances and points, k smallest; find_radius returns exactly the points with d <= r (d == r included); k = 0, k > n, r <= 0 and invalid estimator settings are errors; "
  "neighbour weights (uniform / inverse distance / exact match takes all). Cover tree: construction from a single point succeeds (full query in the thorough tier). Cover-tree search on >= 2 points and the k-NN estimators' predictions are NOT covered (do not finish).",
  "Trusts Kani/CBMC; crate-private HeapSelection and calc_weights are reached through cfg(feature=verif) hooks; ln is replaced by a sign-faithful surrogate in the cover-tree harnesses; error constructors trapped where success is expected.",
  "DESIGN.md 6/C04"),
 "C05": (True,
  "One greedy split search (the inductive step of tree growth) from an ARBITRARY sample-weight state (weights 0..2 = bootstrap multiplicities / rows routed elsewhere), min_samples_leaf symbolic: for n <= 3 rows (n = 4 thorough), p <= 2 features on a small lattice with repeated values, "
  "CBMC proves for the real find_best_split of both trees that a split is returned iff an admissible cut exists, the threshold is the midpoint of two consecutive distinct present values, both children respect min_samples_leaf, the squared-error reduction (regression) / Gini or classification-error decrease (classification, distinct values) "
  "is maximal among all admissible cuts (exact rational comparison) and child outputs are the weighted means / majority classes of exactly the rows on each side; impurity closed forms and which_max. Whole fits (depth limits, completeness, determinism) are outside.",
  "Trusts Kani/CBMC; reaches the private split search through cfg(feature=verif) hooks that build the one-node tree exactly as fit_weak_learner does (real quick_argsort order); Entropy criterion values (log2) and everything needing a grown tree are outside the claim.",
  "DESIGN.md 6/C05"),
 "C03": (True,
  "For every DenseMatrix/Vec of the listed concrete shapes (up to 3x2/2x3 quick, 3x4 thorough) CBMC proves, for ALL values of the stated domain, that each structural operation "
  "(constructors, get/set, rows/columns, iteration, transpose, reshape to every compatible shape, flattening, slice over every range, take with every index pair, stacking, copy, fill/eye) "
  "moves exactly the right bit patterns according to the logical row-major view; that element-wise/scalar arithmetic (copying == in-place), matmul, ab with all four transpose flags on non-square operands, dot, "
  "sum/min/max/norms/means/argmax/unique/cov/binarize/equality agree with an integer oracle on the integer lattice (mixed signs, ties); that softmax hands exp the arguments x - max(x) "
  "(largest exactly 0) and normalises in place; that var/std are accurate for moderate offsets; and that every listed operation on incompatible shapes panics while equality tests return false. "
  "The large-offset variance clause is violated by the code (known finding C03-var-naive-offset, reported by a witness harness).",
  "Trusts Kani/CBMC; float arithmetic is only exercised on exactly representable lattice values (no accuracy claim for sums/products of arbitrary floats); exp/powf are replaced by recorder stubs (argument-level claim); shapes with a dimension > 4, rand and Display are outside.",
  "DESIGN.md 6/C03"),
 "C16": (True,
  "train_test_split (n <= 5 quick, 6 thorough; several test_size values per n; x any bit pattern) is proved for EVERY permutation the shuffle can produce (the RNG shuffle is replaced by an arbitrary symbolic permutation): sizes, "
  "disjointness, union is a permutation of the rows, every target attached to its row, leading rows in order without shuffling; invalid test_size / length mismatch panic. KFold: the complete split iterator for k = 2 (n <= 5, "
  "shuffled n <= 3 quick / 4 thorough) and the index/mask computation behind it for k = 3..4 (n <= 9; shuffled n <= 5): exactly k folds, test sets partition 0..n-1, balanced, consecutive blocks without shuffling, train = complement; k < 2 panics. "
  "cross_val_predict and cross_validate with the real KFold (k = 2, n = 3, 4; data any bit pattern) and an instrumented estimator: every model is fitted on exactly its fold's training rows with targets attached, is only asked about rows it has not seen, and every held-out prediction lands at the sample's original position.",
  "Trusts Kani/CBMC; thread_rng and SliceRandom::shuffle are stubbed (fake_thread_rng, any_perm = arbitrary permutation); KFold::split for k >= 3 does not finish (Vec<Vec<bool>>::reverse), so for k >= 3 only test_indices/test_masks (hook) are decided; cross-validation only for k = 2 and n <= 4 (shuffled: thorough tier); larger n outside the claim.",
  "DESIGN.md 6/C16"),
 "C07": (True,
  "Ridge regression with one feature (n = 2, 3; x, y on an integer lattice; alpha in {1/2, 1, 2}; no normalisation; Cholesky solver): CBMC proves through the real fit (transpose, matmul, cholesky_solve_mut) that the intercept is exactly 0 and w*(sum x^2 + alpha) = sum x*y, "
  "i.e. the gradient of the stated objective vanishes - for the Cholesky and (n = 2) the SVD solver, which therefore agree - and that predict(X) = X*w + b row by row; invalid shapes (n <= p, |y| != n) are errors for ridge and OLS. Thorough tier: normalised ridge (stationarity with unpenalised intercept) and OLS p = 1 through QR (normal equations). p >= 2, solver agreement and non-lattice accuracy are outside.",
  "Trusts Kani/CBMC; error constructors trapped (an Err on valid input is a violation); hypot/powi stubbed; only p = 1 because a 2-column SVD/normalised 2x2 system does not finish; tolerances are absolute on lattice data.",
  "DESIGN.md 6/C07"),
 "C08": (True,
  "The error-reporting clause only: with the interior-point optimiser replaced by a trap (reaching it is a failed assertion) CBMC proves that Lasso::fit returns Err - and neither panics nor enters the optimiser - for every negative alpha, every tol <= 0 (any f64), max_iter = 0, |y| != n, n <= p, "
  "and a constant column k/4 under normalisation; ElasticNet rejects a length mismatch. Constant columns with non-dyadic values are NOT rejected (known finding C08-constant-column-not-rejected, reproduced by a witness harness). Near-optimality, termination and the elastic-net/Lasso relation are outside (unbounded iteration).",
  "Trusts Kani/CBMC; InteriorPointOptimizer::optimize is stubbed by a trap, powi by multiplication; the design matrix is concrete (3x1) in the parameter harnesses - the quantified inputs are the settings.",
  "DESIGN.md 6/C08"),
 "C10": (True,
  "Kernels on lattice vectors (d <= 3): linear kernel equals the integer dot product, is symmetric and its 2-point Gram matrix is PSD; for RBF / polynomial / sigmoid the exact argument handed to exp / powf / tanh is proved to be -gamma*||x-y||^2, (gamma<x,y>+coef0, degree), gamma<x,y>+coef0, bit-identical under exchange of x and y, "
  "and 0 for identical points (RBF); mismatched lengths panic. Prediction formula on ARBITRARY models built from parts (2-3 support vectors, d <= 2, linear kernel): decision_function = sum w_i K(sv_i,x) + b exactly, label = larger class iff decision > 0, one value per row; same for SVR. Training (SMO: feasibility, KKT, termination, visiting orders) is outside.",
  "Trusts Kani/CBMC and std's exp/powf/tanh (only their arguments are decided, via recorder stubs); models are built through cfg(feature=verif) from-parts hooks; RBF Gram PSD-ness and everything about fitting are not covered.",
  "DESIGN.md 6/C10"),
 "C12": (True,
  "The pruning predicate of the BBD filtering tree is proved sound AND exact on a half-integer lattice (d = 1, 2; 3 thorough): whenever prune(best, test) holds no point of the box is closer to test than to best, and whenever it does not hold the extreme corner is strictly closer to test; a centroid never prunes itself. "
  "KMeans::predict on an arbitrary model (k <= 3, d <= 2) assigns every row the first centroid at minimal squared distance. KMeans::fit (seeding, Lloyd iterations, empty clusters) and the whole filtering pass are outside (do not finish).",
  "Trusts Kani/CBMC; BBDTree::prune and the model constructor are reached through cfg(feature=verif) hooks; agreement of the tree-accelerated assignment with exhaustive search is NOT decided, only its pruning test.",
  "DESIGN.md 6/C12"),
 "C14": (True,
  "PCA on a single column (n = 2, 3; 4 thorough; integer lattice, non-constant): through the real fit (centring, one-column SVD) and transform CBMC proves that the component is +-1, the transformed training data equal +-(x - mean) and have zero mean, "
  "the transform is row-wise (transforming a stack equals stacking the transforms), in correlation mode (EVD path on the 1x1 matrix) the scores are the z-scores, and asking for more components than columns is an error. This only guards the centring / projection bookkeeping: orthonormality, decorrelation, variance ordering and optimality for p >= 2 and all of truncated SVD need a multi-column SVD/EVD, which does not finish - outside the claim.",
  "Trusts Kani/CBMC; hypot stubbed, error constructors trapped; p = 1 only.",
  "DESIGN.md 6/C14"),
 "C20": (True,
  "For the nalgebra and ndarray bindings (2x3 / 3x2, any f64 bit pattern) CBMC proves against the same logical row-major oracle as for the dense backend (C03): element/row/column access, transpose, flattening and reshape to every compatible shape - also of a TRANSPOSED operand (nalgebra: quick tier; ndarray: thorough tier, so far inconclusive after the repair - too heavy) - slicing, take, constructors; "
  "on the integer lattice with mixed signs: sum/min/max/norms/max_diff, means, argmax, element-wise arithmetic, approximate_eq, dot and nalgebra matmul; incompatible shapes panic for binary arithmetic and approximate_eq returns false on both bindings. Several ndarray harnesses only fit the thorough tier (40 GB). "
  "ndarray matmul (inline assembly in matrixmultiply), the decompositions and every estimator on the foreign backends are outside.",
  "Trusts Kani/CBMC and the translation of the ndarray / nalgebra crates themselves; agreement between backends follows from agreement of each with the common oracle; ndarray cov is unimplemented (panics) - see DESIGN section 8.",
  "DESIGN.md 6/C20"),
 "C15": (True,
  "For every label/score vector of length <= 4 (5 thorough; AUC scores any finite f32 incl. ties, labels symbolic; regression targets on an integer or half-integer lattice) "
  "CBMC proves that the real accuracy, precision, recall, F-beta (beta in {1/2,1,2}), ROC-AUC, MSE, MAE and R^2 code returns exactly the value of the textbook definition "
  "(integer/rational oracle) and that the seven pairwise metrics panic on vectors of different length. The homogeneity/completeness/V-measure clause is NOT covered (HashMap + ln: not encodable).",
  "Trusts Kani/CBMC; n > 5, off-lattice regression targets and the whole cluster-score clause (cluster_hcv, cluster_helpers) are outside the claim; AUC only on the insertion-sort path of quick_argsort (n <= 7).",
  "DESIGN.md 6/C15"),
}

NA = {
 "C02": "eigen-decomposition: tql2/hqr2 iterate until a data-dependent convergence test (cap 30 sweeps); the 30-fold unrolling of a 2x2 symmetric lattice input did not finish symbolic execution in 30 min at 8-9 GB (DESIGN.md 7); n=1 exercises none of the anchored mechanisms",
 "C06": "random forests: every clause quantifies over whole fits (n_trees tree growths driven by a ChaCha stream); a single tree fit on 4 rows exhausts 24 GB in symbolic execution; seed reproducibility could only be restated by running the fit twice concretely (a test, not this technique)",
 "C09": "logistic regression / L-BFGS: data-dependent iteration length over objectives made of exp/ln, which CBMC only over-approximates non-deterministically (x.ln()==x.ln() fails); neither loop nor function values can be encoded within reach",
 "C11": "naive Bayes: every fit starts with a std HashMap lookup per row (hashbrown SIMD probing does not finish on 3 keys in 25 min) and every statistic is a ln of a ratio (non-deterministic over-approximation in CBMC)",
 "C13": "DBSCAN: fit on 3-4 one-dimensional lattice points did not finish symbolic execution in 20-25 min; all clauses need a completed labelling; cover-tree back end out of reach as for C04",
 "C19": "serde round trips: derived (de)serialisers of fitted models (whole fits out of reach); the hand-written DenseMatrix (de)serialiser through bincode ran 656 s of symbolic execution of serde plumbing and then exhausted 27 GB; JSON adds ryu/itoa digit loops on symbolic floats",
}
PENDING = "check designed in DESIGN.md 6 but its harnesses are not built yet in this revision (will be claimed once it passes on the unchanged tree)"

def main():
    props = [json.loads(l)["id"] for l in open(os.path.join(VERIF, "properties.jsonl"))]
    hooks_commits = subprocess.run(["git", "-C", "/repo", "log", "--format=%h %s", "--grep=^verif hooks"], capture_output=True, text=True).stdout.strip().splitlines()
    m = {
        "version": 1,
        "setup_cmd": "./setup.sh",
        "hooks": {
            "guard": "cargo feature `verif` of the smartcore crate (#[cfg(feature = \"verif\")])",
            "enable": "the harness crate /verif/kani depends on smartcore = { path = \"/repo\", default-features = false, features = [\"verif\"] }; cargo kani builds it on every run",
            "baseline_off_cmd": "cd /repo && cargo test --workspace --no-fail-fast --offline",
            "source_commits": [c.split()[0] for c in hooks_commits],
            "add_only": True,
        },
        "engines": [{
            "name": "kani-cbmc",
            "path": "/verif/vcheck (runner) + /verif/kani (harness crate)",
            "serves_properties": sorted(k for k, v in CHECKS.items() if v[0]),
            "kind_free_text": "Kani 0.68 proof harnesses over the real smartcore code, CBMC 6.11 bounded model checking with CaDiCaL; native replay through Kani concrete playback",
        }],
        "checks": [],
        "not_applicable": [],
        "notes": "All checks are bounded (sizes, value domains and stubs are stated per harness in the evidence). Exit 2 of a check means machinery failure (build failure / unreproducible counterexample / nothing decided), never a verdict.",
    }
    for pid in props:
        c = CHECKS.get(pid)
        if c and c[0]:
            m["checks"].append({
                "property_id": pid,
                "quick_cmd": f"./vcheck {pid} --tier quick",
                "thorough_cmd": f"./vcheck {pid} --tier thorough",
                "evidence_file": f"/verif/evidence/{pid}.json",
                "replay_cmd_template": f"./vcheck {pid} --replay {{path}}",
                "engine": "kani-cbmc",
                "level_claimed": {"category": "model_checking", "text": c[1], "design_ref": c[3]},
                "level_note": c[2],
                "technique": TECH,
            })
        else:
            m["not_applicable"].append({"property_id": pid, "reason": NA.get(pid, PENDING)})
    json.dump(m, open(os.path.join(VERIF, "MANIFEST.json"), "w"), indent=1)
    print("claimed:", [c["property_id"] for c in m["checks"]])

if __name__ == "__main__":
    main()
