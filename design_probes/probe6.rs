#[cfg(kani)]
mod h {
    use smartcore::linalg::naive::dense_matrix::DenseMatrix;
    use smartcore::linalg::{BaseMatrix, BaseVector};
    use smartcore::math::distance::{Distance, Distances};
    use smartcore::linalg::cholesky::CholeskyDecomposableMatrix;

    fn lat(lo: i8, hi: i8) -> (i32, f64) { let k: i8 = kani::any(); kani::assume(k >= lo && k <= hi); (k as i32, k as f64) }

    #[kani::proof]
    fn sqrt_f32_range() {
        let x: f32 = kani::any();
        kani::assume(x >= 1.0 && x <= 4.0);
        let r = x.sqrt();
        assert!(r >= 1.0 && r <= 2.0);
    }
    #[kani::proof]
    fn sqrt_f64_lat() {
        let (k, x) = lat(0, 100);
        let r = x.sqrt();
        assert!(r * r <= x + 1e-9 && r >= 0.0);
        if k == 49 { assert!(r == 7.0); }
    }

    fn because_stub(err: smartcore::error::FailedError, _msg: &str) -> smartcore::error::Failed { smartcore::error::Failed::because(err, "") }
    fn because_stub2(_err: smartcore::error::FailedError, _msg: &str) -> smartcore::error::Failed { smartcore::error::Failed::fit("") }
    // exact sqrt on perfect squares (stub)
    fn sqrt_ps(x: f64) -> f64 {
        let r: u8 = kani::any();
        kani::assume(r <= 16);
        let rf = r as f64;
        kani::assume(rf * rf == x);
        rf
    }

    #[kani::proof]
    #[kani::unwind(5)]
    #[kani::stub(f64::sqrt, sqrt_ps)]
    #[kani::stub(smartcore::error::Failed::because, because_stub2)]
    fn chol_2x2_from_factor() {
        let (l11i, l11) = lat(1, 4); let (l21i, l21) = lat(-4, 4); let (l22i, l22) = lat(1, 4);
        let a = (l11i*l11i) as f64; let b = (l21i*l11i) as f64; let d = (l21i*l21i + l22i*l22i) as f64;
        let m = DenseMatrix::from_array(2, 2, &[a, b, b, d]);
        let c = match m.cholesky() { Ok(c) => c, Err(e) => { std::mem::forget(e); assert!(false); return; } };
        let l = c.L();
        assert!(l.get(0,0) == l11 && l.get(1,0) == l21 && l.get(1,1) == l22 && l.get(0,1) == 0.0);
        kani::cover!(true);
    }

    #[kani::proof]
    #[kani::unwind(5)]
    fn chol_2x2_lat_f32() {
        let (ai, a) = lat(1, 8); let (bi, b) = lat(-4, 4); let (di, d) = lat(1, 8);
        kani::assume(ai*di - bi*bi > 0);
        let m = DenseMatrix::from_array(2, 2, &[a as f32, b as f32, b as f32, d as f32]);
        let c = match m.cholesky() { Ok(c) => c, Err(e) => { std::mem::forget(e); assert!(false); return; } };
        let l = c.L(); let llt = l.matmul(&l.transpose());
        assert!(l.get(0,1) == 0.0);
        for i in 0..2 { for j in 0..2 { assert!((m.get(i,j) - llt.get(i,j)).abs() <= 16.0 * f32::EPSILON * 8.0); } }
    }

    #[kani::proof]
    #[kani::unwind(4)]
    fn eucl_triangle_2d_lat_f32() {
        let mut a = [0f32; 2]; let mut b = [0f32; 2]; let mut c = [0f32; 2];
        for t in 0..2 { a[t] = lat(-4, 4).1 as f32; b[t] = lat(-4, 4).1 as f32; c[t] = lat(-4, 4).1 as f32; }
        let (x, y, z) = (a.to_vec(), b.to_vec(), c.to_vec());
        let m = Distances::euclidian();
        let dxy: f32 = m.distance(&x, &y); let dyz: f32 = m.distance(&y, &z); let dxz: f32 = m.distance(&x, &z);
        assert!(dxz <= (dxy + dyz) * (1.0 + 4.0 * f32::EPSILON));
    }
}
