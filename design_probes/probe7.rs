#[cfg(kani)]
mod h {
    use smartcore::linalg::naive::dense_matrix::DenseMatrix;
    use smartcore::linalg::{BaseMatrix, BaseVector, Matrix};
    use smartcore::verif_hooks::*;
    use smartcore::tree::decision_tree_regressor::*;
    use smartcore::model_selection::*;
    use smartcore::api::Predictor;
    use smartcore::error::Failed;
    use smartcore::linalg::cholesky::CholeskyDecomposableMatrix;
    use smartcore::preprocessing::categorical::*;
    use smartcore::math::num::RealNumber;

    fn lat(lo: i8, hi: i8) -> (i32, f64) { let k: i8 = kani::any(); kani::assume(k >= lo && k <= hi); (k as i32, k as f64) }

    #[kani::proof]
    #[kani::unwind(5)]
    fn chol_2x2_sym_f32_noL() {
        let a: f32 = kani::any(); let b: f32 = kani::any(); let d: f32 = kani::any();
        kani::assume(a >= 1.0 && a <= 8.0 && b.abs() <= 0.5 && d >= 1.0 && d <= 8.0);
        let m = DenseMatrix::from_array(2, 2, &[a, b, b, d]);
        match m.cholesky() {
            Ok(c) => { let l = c.L(); let l00 = l.get(0,0); assert!((l00*l00 - a).abs() <= 1e-5 * a); }
            Err(e) => { std::mem::forget(e); assert!(false); }
        }
    }

    #[kani::proof]
    #[kani::unwind(5)]
    fn chol_2x2_lat_f64_noL() {
        let (ai, a) = lat(1, 8); let (bi, b) = lat(-2, 2); let (di, d) = lat(1, 8);
        kani::assume(ai*di - bi*bi > 0);
        let m = DenseMatrix::from_array(2, 2, &[a, b, b, d]);
        match m.cholesky_mut() {
            Ok(c) => { let l = c.L(); assert!(l.get(0,1) == 0.0); }
            Err(e) => { std::mem::forget(e); assert!(false); }
        }
    }

    #[kani::proof]
    #[kani::unwind(5)]
    fn tree_split_step_3_f32() {
        let mut xs = [0f32; 3]; let mut ys = [0f32; 3]; let mut xi = [0i32; 3]; let mut yi = [0i32; 3];
        for t in 0..3 { let (a, b) = lat(0, 2); xs[t] = b as f32; xi[t] = a; let (a, b) = lat(-2, 2); ys[t] = b as f32; yi[t] = a; }
        let mut w = [0usize; 3];
        for t in 0..3 { let k: u8 = kani::any(); kani::assume(k <= 2); w[t] = k as usize; }
        kani::assume(w[0] + w[1] + w[2] >= 2);
        let x = DenseMatrix::from_array(3, 1, &xs);
        let y = ys.to_vec();
        let r = verif_best_split_regressor(&x, &y, w.to_vec(), DecisionTreeRegressorParameters::default());
        let mut distinct = false;
        for i in 0..3 { for j in 0..3 { if w[i] > 0 && w[j] > 0 && xi[i] != xi[j] { distinct = true; } } }
        assert!(r.is_some() == distinct);
    }

    // cross_val_predict with an arbitrary 2-fold splitter and a row-identity echo estimator
    struct SymSplit { mask: [bool; 4] }
    impl BaseKFold for SymSplit {
        type Output = std::vec::IntoIter<(Vec<usize>, Vec<usize>)>;
        fn n_splits(&self) -> usize { 2 }
        fn split<T: RealNumber, M: Matrix<T>>(&self, _x: &M) -> Self::Output {
            let mut a = Vec::new(); let mut b = Vec::new();
            for i in 0..4 { if self.mask[i] { a.push(i) } else { b.push(i) } }
            vec![(a.clone(), b.clone()), (b, a)].into_iter()
        }
    }
    struct Echo { seen: [bool; 4] }
    impl Predictor<DenseMatrix<f64>, Vec<f64>> for Echo {
        fn predict(&self, x: &DenseMatrix<f64>) -> Result<Vec<f64>, Failed> {
            let n = x.shape().0; let mut out = vec![0f64; n];
            for i in 0..n { let id = x.get(i, 0) as usize; assert!(!self.seen[id]); out[i] = x.get(i, 0) + 10.0; }
            Ok(out)
        }
    }
    #[kani::proof]
    #[kani::unwind(6)]
    fn cvp_n4() {
        let x = DenseMatrix::from_array(4, 1, &[0f64, 1., 2., 3.]);
        let y = vec![0f64, 1., 2., 3.];
        let mask: [bool; 4] = kani::any();
        kani::assume((mask[0] || mask[1] || mask[2] || mask[3]) && !(mask[0] && mask[1] && mask[2] && mask[3]));
        let fit = |xt: &DenseMatrix<f64>, yt: &Vec<f64>, _p: ()| -> Result<Echo, Failed> {
            let mut seen = [false; 4];
            for i in 0..xt.shape().0 { let id = xt.get(i, 0) as usize; assert!(yt[i] == xt.get(i, 0)); seen[id] = true; }
            Ok(Echo { seen })
        };
        match cross_val_predict(fit, &x, &y, (), SymSplit { mask }) {
            Ok(p) => { for i in 0..4 { assert!(p[i] == i as f64 + 10.0); } }
            Err(e) => { std::mem::forget(e); assert!(false); }
        }
    }

    #[kani::proof]
    #[kani::unwind(6)]
    fn onehot_3x1() {
        let c0 = lat(0, 2).1; let c1 = lat(0, 2).1; let c2 = lat(0, 2).1;
        let m = DenseMatrix::from_array(3, 1, &[c0, c1, c2]);
        match OneHotEncoder::fit(&m, OneHotEncoderParams::from_cat_idx(&[0])) {
            Ok(enc) => match enc.transform(&m) {
                Ok(t) => { assert!(t.shape().0 == 3); assert!(t.get(0, 0) == 1.0); }
                Err(e) => { std::mem::forget(e); assert!(false); }
            },
            Err(e) => { std::mem::forget(e); assert!(false); }
        }
    }
}
