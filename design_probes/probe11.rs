#[cfg(kani)]
mod h {
    use smartcore::linalg::naive::dense_matrix::DenseMatrix;
    use smartcore::linalg::{BaseMatrix, BaseVector, Matrix};
    use smartcore::model_selection::*;
    use smartcore::api::Predictor;
    use smartcore::error::{Failed, FailedError};
    use smartcore::math::num::RealNumber;
    use smartcore::metrics::auc::AUC;
    use smartcore::metrics::r2::R2;
    use smartcore::metrics::f1::F1;
    use rand::rngs::adapter::ReseedingRng;
    use rand::rngs::OsRng;
    use rand::rngs::ThreadRng;
    use rand_chacha::ChaCha12Core;
    use std::rc::Rc;
    use std::cell::UnsafeCell;

    fn fake_thread_rng() -> ThreadRng {
        let r: Rc<UnsafeCell<std::mem::MaybeUninit<ReseedingRng<ChaCha12Core, OsRng>>>> = Rc::new(UnsafeCell::new(std::mem::MaybeUninit::uninit()));
        unsafe { std::mem::transmute::<_, ThreadRng>(r) }
    }
    trait Sl { fn sl(&mut self) -> &mut [usize]; }
    impl Sl for [usize] { fn sl(&mut self) -> &mut [usize] { self } }
    fn any_perm<S: ?Sized + Sl, R: ?Sized>(s: &mut S, _rng: &mut R) {
        let s = s.sl(); let n = s.len();
        for i in 0..n { let j: usize = kani::any(); kani::assume(j >= i && j < n); s.swap(i, j); }
    }
    fn lat(lo: i8, hi: i8) -> (i32, f64) { let k: i8 = kani::any(); kani::assume(k >= lo && k <= hi); (k as i32, k as f64) }

    #[kani::proof]
    #[kani::unwind(7)]
    #[kani::stub(rand::thread_rng, fake_thread_rng)]
    #[kani::stub(rand::seq::SliceRandom::shuffle, any_perm)]
    fn kfold_n5_k2_shuffle() {
        let x: DenseMatrix<f64> = DenseMatrix::zeros(5, 1);
        let kf = KFold { n_splits: 2, shuffle: true };
        let mut seen = [0u8; 5]; let mut folds = 0;
        for (train, test) in kf.split(&x) {
            folds += 1;
            assert!(train.len() + test.len() == 5 && (test.len() == 2 || test.len() == 3));
            for &i in test.iter() { seen[i] += 1; for &j in train.iter() { assert!(i != j); } }
        }
        assert!(folds == 2);
        for i in 0..5 { assert!(seen[i] == 1); }
    }

    #[kani::proof]
    #[kani::unwind(8)]
    #[kani::stub(rand::thread_rng, fake_thread_rng)]
    fn kfold_n6_k3() {
        let x: DenseMatrix<f64> = DenseMatrix::zeros(6, 1);
        let kf = KFold { n_splits: 3, shuffle: false };
        let mut seen = [0u8; 6];
        for (train, test) in kf.split(&x) {
            assert!(train.len() == 4 && test.len() == 2 && test[1] == test[0] + 1);
            for &i in test.iter() { seen[i] += 1; }
        }
        for i in 0..6 { assert!(seen[i] == 1); }
    }

    #[kani::proof]
    #[kani::unwind(6)]
    fn auc_4_symlabels() {
        let s: [f32; 4] = kani::any();
        let l: [bool; 4] = kani::any();
        for t in 0..4 { kani::assume(s[t].is_finite()); }
        let np = l.iter().filter(|b| **b).count(); kani::assume(np >= 1 && np <= 3);
        let yt: Vec<f32> = l.iter().map(|b| if *b { 1.0 } else { 0.0 }).collect();
        let a = AUC{}.get_score(&yt, &s.to_vec());
        let mut num = 0i32;
        for p in 0..4 { for n in 0..4 { if l[p] && !l[n] { if s[p] > s[n] { num += 2 } else if s[p] == s[n] { num += 1 } } } }
        let den = (2 * np * (4 - np)) as f32;
        assert!(a == (num as f32) / den);
    }

    #[kani::proof]
    #[kani::unwind(6)]
    fn r2_4_lat() {
        let mut yt = [0f64; 4]; let mut yp = [0f64; 4]; let mut ti = [0i32; 4]; let mut pi = [0i32; 4];
        for t in 0..4 { let (a, b) = lat(-4, 4); yt[t] = b; ti[t] = a; let (a, b) = lat(-4, 4); yp[t] = b; pi[t] = a; }
        let s: i32 = ti.iter().sum();
        // ss_tot * 16 = sum (4 y - s)^2 ; ss_res = sum (y - f)^2
        let mut tot16 = 0i32; let mut res = 0i32;
        for t in 0..4 { tot16 += (4*ti[t] - s)*(4*ti[t] - s); res += (ti[t]-pi[t])*(ti[t]-pi[t]); }
        kani::assume(tot16 > 0);
        let r = R2{}.get_score(&yt.to_vec(), &yp.to_vec());
        let want = 1.0 - (16.0 * res as f64) / (tot16 as f64);
        assert!((r - want).abs() <= 1e-12 * (1.0 + want.abs()));
    }

    #[kani::proof]
    #[kani::unwind(6)]
    fn f1_4() {
        let t: [bool; 4] = kani::any(); let p: [bool; 4] = kani::any();
        let mut tp = 0i32; let mut fp = 0i32; let mut fnn = 0i32;
        for i in 0..4 { if p[i] && t[i] { tp += 1 } if p[i] && !t[i] { fp += 1 } if !p[i] && t[i] { fnn += 1 } }
        kani::assume(tp >= 1);
        let yt: Vec<f64> = t.iter().map(|b| if *b { 1.0 } else { 0.0 }).collect();
        let yp: Vec<f64> = p.iter().map(|b| if *b { 1.0 } else { 0.0 }).collect();
        let f = F1 { beta: 1.0 }.get_score(&yt, &yp);
        let want = (2 * tp) as f64 / (2 * tp + fp + fnn) as f64;
        assert!((f - want).abs() <= 1e-12);
    }
}
