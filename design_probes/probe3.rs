#[cfg(kani)]
mod h {
    use smartcore::linalg::naive::dense_matrix::DenseMatrix;
    use smartcore::linalg::{BaseMatrix, BaseVector};
    use ndarray::{Array2, arr2};
    use nalgebra::DMatrix;

    #[kani::proof]
    #[kani::unwind(8)]
    fn nd_transpose_flatten_2x3() {
        let v: [f64; 6] = kani::any();
        let a: Array2<f64> = arr2(&[[v[0], v[1], v[2]], [v[3], v[4], v[5]]]);
        let t = BaseMatrix::transpose(&a);
        assert!(BaseMatrix::shape(&t) == (3, 2));
        for i in 0..2 { for j in 0..3 { assert!(BaseMatrix::get(&t, j, i).to_bits() == v[i*3+j].to_bits()); } }
        let r = BaseMatrix::reshape(&a, 3, 2);
        for k in 0..6 { assert!(BaseMatrix::get(&r, k / 2, k % 2).to_bits() == v[k].to_bits()); }
    }

    #[kani::proof]
    #[kani::unwind(8)]
    fn na_reshape_2x3() {
        let v: [f64; 6] = kani::any();
        let a: DMatrix<f64> = DMatrix::from_row_slice(2, 3, &v);
        for i in 0..2 { for j in 0..3 { assert!(BaseMatrix::get(&a, i, j).to_bits() == v[i*3+j].to_bits()); } }
        let r = BaseMatrix::reshape(&a, 3, 2);
        for k in 0..6 { assert!(BaseMatrix::get(&r, k / 2, k % 2).to_bits() == v[k].to_bits()); }
    }

    #[kani::proof]
    #[kani::unwind(60)]
    fn bincode_dm_2x3() {
        let v: [f64; 6] = kani::any();
        let m = DenseMatrix::from_array(2, 3, &v);
        let bytes = bincode::serialize(&m).unwrap();
        let m2: DenseMatrix<f64> = bincode::deserialize(&bytes).unwrap();
        assert!(m2.shape() == (2, 3));
        for i in 0..2 { for j in 0..3 { assert!(m2.get(i, j).to_bits() == v[i*3+j].to_bits()); } }
    }
}
