#[cfg(kani)]
mod h {
    use smartcore::linalg::naive::dense_matrix::DenseMatrix;
    use smartcore::linalg::{BaseMatrix, BaseVector, Matrix};
    use smartcore::linalg::cholesky::CholeskyDecomposableMatrix;

    fn lat(lo: i8, hi: i8) -> (i32, f64) { let k: i8 = kani::any(); kani::assume(k >= lo && k <= hi); (k as i32, k as f64) }
    fn trap_because(_e: smartcore::error::FailedError, _m: &str) -> smartcore::error::Failed { panic!("VP:unexpected-err") }
    fn sqrt_ps(x: f64) -> f64 {
        let r: u8 = kani::any();
        kani::assume(r <= 16);
        let rf = r as f64;
        kani::assume(rf * rf == x);
        rf
    }
    fn sqrt_ps32(x: f32) -> f32 {
        let r: u8 = kani::any();
        kani::assume(r <= 16);
        let rf = r as f32;
        kani::assume(rf * rf == x);
        rf
    }
    #[kani::proof]
    #[kani::unwind(5)]
    #[kani::stub(f64::sqrt, sqrt_ps)]
    #[kani::stub(smartcore::error::Failed::because, trap_because)]
    fn f1_factor_l00_f64() {
        let (l11i, l11) = lat(1, 4); let (l21i, _l21) = lat(-4, 4); let (l22i, _l22) = lat(1, 4);
        let a = (l11i*l11i) as f64; let b = (l21i*l11i) as f64; let d = (l21i*l21i + l22i*l22i) as f64;
        let m = DenseMatrix::from_array(2, 2, &[a, b, b, d]);
        match m.cholesky() { Ok(c) => { let l = c.L(); assert!(l.get(0,0) == l11); std::mem::forget(l); std::mem::forget(c); } Err(e) => { std::mem::forget(e); assert!(false); } }
    }
    #[kani::proof]
    #[kani::unwind(5)]
    #[kani::stub(f32::sqrt, sqrt_ps32)]
    #[kani::stub(smartcore::error::Failed::because, trap_because)]
    fn f2_factor_all_f32() {
        let (l11i, l11) = lat(1, 4); let (l21i, l21) = lat(-4, 4); let (l22i, l22) = lat(1, 4);
        let a = (l11i*l11i) as f32; let b = (l21i*l11i) as f32; let d = (l21i*l21i + l22i*l22i) as f32;
        let m = DenseMatrix::from_array(2, 2, &[a, b, b, d]);
        match m.cholesky() { Ok(c) => { let l = c.L(); assert!(l.get(0,0) == l11 as f32 && l.get(1,0) == l21 as f32 && l.get(1,1) == l22 as f32 && l.get(0,1) == 0.0); std::mem::forget(l); std::mem::forget(c); } Err(e) => { std::mem::forget(e); assert!(false); } }
    }
    #[kani::proof]
    #[kani::unwind(5)]
    #[kani::stub(smartcore::error::Failed::because, trap_because)]
    fn f3_realsqrt_f32_l00() {
        let (ai, a) = lat(1, 8); let (bi, b) = lat(-2, 2); let (di, d) = lat(1, 8);
        kani::assume(ai*di - bi*bi > 0);
        let m = DenseMatrix::from_array(2, 2, &[a as f32, b as f32, b as f32, d as f32]);
        match m.cholesky() { Ok(c) => { let l = c.L(); let x = l.get(0,0); assert!((x*x - a as f32).abs() <= 1e-5); std::mem::forget(l); std::mem::forget(c); } Err(e) => { std::mem::forget(e); assert!(false); } }
    }
}
