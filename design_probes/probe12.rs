#[cfg(kani)]
mod h {
    use smartcore::linalg::naive::dense_matrix::DenseMatrix;
    use smartcore::linalg::{BaseMatrix, BaseVector, Matrix};
    use smartcore::linalg::lu::LUDecomposableMatrix;
    use smartcore::verif_hooks::*;
    use smartcore::model_selection::*;
    use smartcore::api::Predictor;
    use smartcore::error::{Failed, FailedError};
    use smartcore::math::num::RealNumber;
    use ndarray::{Array2, arr2};
    use nalgebra::DMatrix;

    fn lat(lo: i8, hi: i8) -> (i32, f64) { let k: i8 = kani::any(); kani::assume(k >= lo && k <= hi); (k as i32, k as f64) }

    #[kani::proof]
    #[kani::unwind(8)]
    fn nd_matmul_2x2_lat() {
        let mut ai = [0i32; 4]; let mut a = [0f64; 4]; let mut bi = [0i32; 4]; let mut b = [0f64; 4];
        for t in 0..4 { let (i, f) = lat(-3, 3); ai[t] = i; a[t] = f; let (i, f) = lat(-3, 3); bi[t] = i; b[t] = f; }
        let ma: Array2<f64> = arr2(&[[a[0], a[1]], [a[2], a[3]]]);
        let mb: Array2<f64> = arr2(&[[b[0], b[1]], [b[2], b[3]]]);
        let p = BaseMatrix::matmul(&ma, &mb);
        for i in 0..2 { for j in 0..2 { let mut s = 0i32; for k in 0..2 { s += ai[i*2+k]*bi[k*2+j]; } assert!(BaseMatrix::get(&p, i, j) == s as f64); } }
    }

    #[kani::proof]
    #[kani::unwind(8)]
    fn na_matmul_2x2_lat() {
        let mut ai = [0i32; 4]; let mut a = [0f64; 4]; let mut bi = [0i32; 4]; let mut b = [0f64; 4];
        for t in 0..4 { let (i, f) = lat(-3, 3); ai[t] = i; a[t] = f; let (i, f) = lat(-3, 3); bi[t] = i; b[t] = f; }
        let ma: DMatrix<f64> = DMatrix::from_row_slice(2, 2, &a);
        let mb: DMatrix<f64> = DMatrix::from_row_slice(2, 2, &b);
        let p = BaseMatrix::matmul(&ma, &mb);
        for i in 0..2 { for j in 0..2 { let mut s = 0i32; for k in 0..2 { s += ai[i*2+k]*bi[k*2+j]; } assert!(BaseMatrix::get(&p, i, j) == s as f64); } }
    }

    #[kani::proof]
    #[kani::unwind(6)]
    fn bbd_clust_3() {
        let mut xs = [0f64; 3]; let mut xi = [0i32; 3];
        for t in 0..3 { let (i, f) = lat(0, 4); xs[t] = f; xi[t] = i; }
        let (c0i, c0) = lat(-2, 6); let (c1i, c1) = lat(-2, 6);
        let x = DenseMatrix::from_array(3, 1, &xs);
        let (dist, sums, counts, mem) = verif_bbd_clustering(&x, &[vec![c0], vec![c1]]);
        let ci = [c0i, c1i];
        let mut want = 0i32; let mut cnt = [0usize; 2]; let mut sm = [0i32; 2];
        for i in 0..3 {
            assert!(mem[i] < 2);
            let dm = (xi[i]-ci[mem[i]])*(xi[i]-ci[mem[i]]); let dn = (xi[i]-ci[1-mem[i]])*(xi[i]-ci[1-mem[i]]);
            assert!(dm <= dn);
            want += dm; cnt[mem[i]] += 1; sm[mem[i]] += xi[i];
        }
        assert!(counts[0] == cnt[0] && counts[1] == cnt[1]);
        assert!(sums[0][0] == sm[0] as f64 && sums[1][0] == sm[1] as f64);
        assert!(dist == want as f64);
    }

    #[kani::proof]
    #[kani::unwind(11)]
    fn lu_3x3_lat_f32() {
        let mut a = [0f32; 9]; let mut ai = [0i32; 9];
        for t in 0..9 { let (i, f) = lat(-2, 2); a[t] = f as f32; ai[t] = i; }
        let det = ai[0]*(ai[4]*ai[8]-ai[5]*ai[7]) - ai[1]*(ai[3]*ai[8]-ai[5]*ai[6]) + ai[2]*(ai[3]*ai[7]-ai[4]*ai[6]);
        kani::assume(det != 0);
        let m = DenseMatrix::from_array(3, 3, &a);
        if let Ok(lu) = m.lu() {
            let (l, u, p) = (lu.L(), lu.U(), lu.pivot());
            let pa = p.matmul(&m); let lu_ = l.matmul(&u);
            for i in 0..3 { for j in 0..3 { assert!((pa.get(i,j) - lu_.get(i,j)).abs() <= 64.0 * f32::EPSILON * 2.0); } }
        }
    }

    struct SymSplit { mask: [bool; 3] }
    impl BaseKFold for SymSplit {
        type Output = std::vec::IntoIter<(Vec<usize>, Vec<usize>)>;
        fn n_splits(&self) -> usize { 2 }
        fn split<T: RealNumber, M: Matrix<T>>(&self, _x: &M) -> Self::Output {
            let mut a = Vec::new(); let mut b = Vec::new();
            for i in 0..3 { if self.mask[i] { a.push(i) } else { b.push(i) } }
            vec![(a.clone(), b.clone()), (b, a)].into_iter()
        }
    }
    struct Echo { seen: [bool; 3] }
    impl Predictor<DenseMatrix<f64>, Vec<f64>> for Echo {
        fn predict(&self, x: &DenseMatrix<f64>) -> Result<Vec<f64>, Failed> {
            let n = x.shape().0; let mut out = vec![0f64; n];
            for i in 0..n { let id = x.get(i, 0) as usize; assert!(!self.seen[id]); out[i] = x.get(i, 0) + 10.0; }
            Ok(out)
        }
    }
    #[kani::proof]
    #[kani::unwind(5)]
    fn cvp_n3() {
        let x = DenseMatrix::from_array(3, 1, &[0f64, 1., 2.]);
        let y = vec![0f64, 1., 2.];
        let mask: [bool; 3] = kani::any();
        kani::assume((mask[0] || mask[1] || mask[2]) && !(mask[0] && mask[1] && mask[2]));
        let fit = |xt: &DenseMatrix<f64>, yt: &Vec<f64>, _p: ()| -> Result<Echo, Failed> {
            let mut seen = [false; 3];
            for i in 0..xt.shape().0 { let id = xt.get(i, 0) as usize; assert!(yt[i] == xt.get(i, 0)); seen[id] = true; }
            Ok(Echo { seen })
        };
        if let Ok(p) = cross_val_predict(fit, &x, &y, (), SymSplit { mask }) { for i in 0..3 { assert!(p[i] == i as f64 + 10.0); } }
    }
}
