#[cfg(kani)]
mod h {
    use smartcore::linalg::naive::dense_matrix::DenseMatrix;
    use smartcore::linalg::BaseMatrix;
    use smartcore::model_selection::{KFold, BaseKFold};
    use rand::rngs::adapter::ReseedingRng;
    use rand::rngs::OsRng;
    use rand::rngs::ThreadRng;
    use rand_chacha::ChaCha12Core;
    
    use std::rc::Rc;
    use std::cell::UnsafeCell;

    fn fake_thread_rng() -> ThreadRng {
        let r: Rc<UnsafeCell<std::mem::MaybeUninit<ReseedingRng<ChaCha12Core, OsRng>>>> = Rc::new(UnsafeCell::new(std::mem::MaybeUninit::uninit()));
        unsafe { std::mem::transmute::<_, ThreadRng>(r) }
    }

    trait Sl { fn sl(&mut self) -> &mut [usize]; }
    impl Sl for [usize] { fn sl(&mut self) -> &mut [usize] { self } }
    fn any_perm<S: ?Sized + Sl, R: ?Sized>(s: &mut S, _rng: &mut R) {
        let s = s.sl();
        let n = s.len();
        for i in 0..n { let j: usize = kani::any(); kani::assume(j >= i && j < n); s.swap(i, j); }
    }

    #[kani::proof]
    #[kani::unwind(9)]
    #[kani::stub(rand::thread_rng, fake_thread_rng)]
    fn kfold_n7() {
        let x: DenseMatrix<f64> = DenseMatrix::zeros(7, 1);
        let k: usize = kani::any(); kani::assume(k >= 2 && k <= 7);
        let kf = KFold { n_splits: k, shuffle: false };
        let mut seen = [0u8; 7];
        let mut folds = 0usize;
        for (train, test) in kf.split(&x) {
            folds += 1;
            assert!(train.len() + test.len() == 7);
            assert!(test.len() == 7 / k || test.len() == 7 / k + 1);
            for &i in test.iter() { seen[i] += 1; }
        }
        assert!(folds == k);
        for i in 0..7 { assert!(seen[i] == 1); }
    }

    #[kani::proof]
    #[kani::unwind(7)]
    #[kani::stub(rand::thread_rng, fake_thread_rng)]
    #[kani::stub(rand::seq::SliceRandom::shuffle, any_perm)]
    fn kfold_n5_shuffle() {
        let x: DenseMatrix<f64> = DenseMatrix::zeros(5, 1);
        let k: usize = kani::any(); kani::assume(k >= 2 && k <= 5);
        let kf = KFold { n_splits: k, shuffle: true };
        let mut seen = [0u8; 5];
        for (train, test) in kf.split(&x) {
            assert!(train.len() + test.len() == 5);
            for &i in test.iter() { seen[i] += 1; }
        }
        for i in 0..5 { assert!(seen[i] == 1); }
    }

    #[kani::proof]
    #[kani::unwind(6)]
    #[kani::stub(rand::thread_rng, fake_thread_rng)]
    fn kfold_n4_symk() {
        let x: DenseMatrix<f64> = DenseMatrix::zeros(4, 1);
        let k: usize = kani::any(); kani::assume(k >= 2 && k <= 4);
        let kf = KFold { n_splits: k, shuffle: false };
        let mut seen = [0u8; 4];
        for (train, test) in kf.split(&x) {
            assert!(train.len() + test.len() == 4);
            for &i in test.iter() { seen[i] += 1; }
        }
        for i in 0..4 { assert!(seen[i] == 1); }
    }
    #[kani::proof]
    #[kani::unwind(9)]
    #[kani::stub(rand::thread_rng, fake_thread_rng)]
    fn kfold_n7_k3() {
        let x: DenseMatrix<f64> = DenseMatrix::zeros(7, 1);
        let kf = KFold { n_splits: 3, shuffle: false };
        let mut seen = [0u8; 7];
        for (train, test) in kf.split(&x) {
            assert!(train.len() + test.len() == 7);
            for &i in test.iter() { seen[i] += 1; }
        }
        for i in 0..7 { assert!(seen[i] == 1); }
    }
}
