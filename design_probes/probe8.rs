#[cfg(kani)]
mod h {
    use smartcore::linalg::naive::dense_matrix::DenseMatrix;
    use smartcore::linalg::{BaseMatrix, BaseVector, Matrix};
    use smartcore::verif_hooks::*;
    use smartcore::linalg::qr::QRDecomposableMatrix;
    use smartcore::linalg::svd::SVDDecomposableMatrix;
    use smartcore::neighbors::knn_regressor::*;
    use smartcore::neighbors::KNNWeightFunction;
    use smartcore::algorithm::neighbour::KNNAlgorithmName;

    fn lat(lo: i8, hi: i8) -> (i32, f64) { let k: i8 = kani::any(); kani::assume(k >= lo && k <= hi); (k as i32, k as f64) }
    fn hyp32(x: f32, y: f32) -> f32 { (x*x + y*y).sqrt() }
    fn no_format(_a: std::fmt::Arguments<'_>) -> String { String::new() }

    #[kani::proof]
    #[kani::unwind(70)]
    #[kani::stub(std::fmt::format, no_format)]
    fn bincode_dm_2x3() {
        let v: [f64; 6] = kani::any();
        let m = DenseMatrix::from_array(2, 3, &v);
        match bincode::serialize(&m) {
            Ok(bytes) => match bincode::deserialize::<DenseMatrix<f64>>(&bytes) {
                Ok(m2) => { assert!(m2.shape() == (2, 3)); for i in 0..2 { for j in 0..3 { assert!(m2.get(i, j).to_bits() == v[i*3+j].to_bits()); } } }
                Err(e) => { std::mem::forget(e); assert!(false); }
            },
            Err(e) => { std::mem::forget(e); assert!(false); }
        }
    }

    #[kani::proof]
    #[kani::unwind(5)]
    #[kani::stub(f32::hypot, hyp32)]
    fn qr_2x2_lat_f32() {
        let mut a = [0f32; 4]; let mut ai = [0i32; 4];
        for t in 0..4 { let (i, f) = lat(-3, 3); a[t] = f as f32; ai[t] = i; }
        kani::assume(ai[0]*ai[3] - ai[1]*ai[2] != 0);
        let m = DenseMatrix::from_array(2, 2, &a);
        match m.qr() {
            Ok(qr) => {
                let q = qr.Q(); let r = qr.R();
                assert!(r.get(1,0) == 0.0);
                let p = q.matmul(&r);
                for i in 0..2 { for j in 0..2 { assert!((p.get(i,j) - a[i*2+j]).abs() <= 64.0 * f32::EPSILON * 6.0); } }
            }
            Err(e) => { std::mem::forget(e); assert!(false); }
        }
    }

    #[kani::proof]
    #[kani::unwind(5)]
    #[kani::stub(f32::hypot, hyp32)]
    fn svd_2x1_lat_f32() {
        let (_, a) = lat(-4, 4); let (_, b) = lat(-4, 4);
        kani::assume(a != 0.0 || b != 0.0);
        let m = DenseMatrix::from_array(2, 1, &[a as f32, b as f32]);
        match m.svd() {
            Ok(s) => {
                assert!(s.s.len() == 1 && s.s[0] >= 0.0);
                let want = ((a*a + b*b) as f32).sqrt();
                assert!((s.s[0] - want).abs() <= 16.0 * f32::EPSILON * want);
            }
            Err(e) => { std::mem::forget(e); assert!(false); }
        }
    }

    #[kani::proof]
    #[kani::unwind(4)]
    fn bbd_prune_1d_lat() {
        let (ci, c) = lat(-4, 4); let (ri, r) = lat(0, 3); let (bi, b) = lat(-6, 6); let (ti, t) = lat(-6, 6);
        let (xi, _x) = lat(-7, 7);
        kani::assume(xi >= ci - ri && xi <= ci + ri);
        let cents = vec![vec![b], vec![t]];
        let pr = verif_bbd_prune(&[c], &[r], &cents, 0, 1);
        if pr { assert!((xi - bi) * (xi - bi) <= (xi - ti) * (xi - ti)); }
    }

    #[kani::proof]
    #[kani::unwind(5)]
    fn knn_reg_3_k2() {
        let mut xs = [0f64; 3]; let mut xi = [0i32; 3];
        for t in 0..3 { let (a, b) = lat(0, 4); xs[t] = b; xi[t] = a; }
        let ys = vec![0f64, 4.0, 8.0];
        let (qi, q) = lat(0, 4);
        let x = DenseMatrix::from_array(3, 1, &xs);
        let qm = DenseMatrix::from_array(1, 1, &[q]);
        match KNNRegressor::fit(&x, &ys, KNNRegressorParameters::default().with_k(2).with_algorithm(KNNAlgorithmName::LinearSearch)) {
            Ok(m) => match m.predict(&qm) {
                Ok(p) => {
                    // prediction = mean of y over some 2-nearest set
                    let d = [(xi[0]-qi).abs(), (xi[1]-qi).abs(), (xi[2]-qi).abs()];
                    let mut ok = false;
                    for ex in 0..3 { // excluded index must be a farthest one
                        let far = d[ex] >= d[(ex+1)%3] && d[ex] >= d[(ex+2)%3];
                        let mean = (ys[(ex+1)%3] + ys[(ex+2)%3]) / 2.0;
                        if far && p[0] == mean { ok = true; }
                    }
                    assert!(ok);
                }
                Err(e) => { std::mem::forget(e); assert!(false); }
            },
            Err(e) => { std::mem::forget(e); assert!(false); }
        }
    }
}
