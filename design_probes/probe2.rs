#[cfg(kani)]
mod h {
    use smartcore::linalg::naive::dense_matrix::DenseMatrix;
    use smartcore::linalg::{BaseMatrix, BaseVector};
    use smartcore::algorithm::neighbour::linear_search::LinearKNNSearch;
    use smartcore::math::distance::Distance;
    use smartcore::math::distance::Distances;
    use smartcore::metrics::auc::AUC;

    fn lat(lo: i8, hi: i8) -> (i32, f64) { let k: i8 = kani::any(); kani::assume(k >= lo && k <= hi); (k as i32, k as f64) }

    #[derive(Clone, Debug)]
    struct AbsD;
    impl Distance<i32, f64> for AbsD { fn distance(&self, a: &i32, b: &i32) -> f64 { (a - b).abs() as f64 } }

    #[kani::proof]
    #[kani::unwind(6)]
    fn linear_find_4_k2() {
        let mut d = [0i32; 4];
        for t in 0..4 { d[t] = lat(-4, 4).0; }
        let q = lat(-4, 4).0;
        let s = LinearKNNSearch::new(d.to_vec(), AbsD).unwrap();
        let r = s.find(&q, 2).unwrap();
        assert!(r.len() == 2);
        let mut inr = [false; 4];
        for e in r.iter() { assert!(e.0 < 4); assert!(!inr[e.0]); inr[e.0] = true; assert!(e.1 == (d[e.0]-q).abs() as f64); }
        for i in 0..4 { for j in 0..4 { if inr[i] && !inr[j] { assert!((d[i]-q).abs() <= (d[j]-q).abs()); } } }
    }

    #[kani::proof]
    #[kani::unwind(6)]
    fn auc_4() {
        let s: [f32; 4] = kani::any();
        for t in 0..4 { kani::assume(s[t].is_finite()); }
        let yt = vec![0f32, 1., 0., 1.];
        let ys = s.to_vec();
        let a = AUC{}.get_score(&yt, &ys);
        // oracle: pairwise count
        let mut num = 0i32;
        for p in [1usize, 3] { for n in [0usize, 2] { if s[p] > s[n] { num += 2 } else if s[p] == s[n] { num += 1 } } }
        assert!(a == (num as f32) / 8.0);
    }

    #[kani::proof]
    #[kani::unwind(5)]
    fn eucl_sym_3_f32() {
        let a: [f32; 3] = kani::any(); let b: [f32; 3] = kani::any();
        for t in 0..3 { kani::assume(a[t].is_finite() && b[t].is_finite()); }
        let x = a.to_vec(); let y = b.to_vec();
        let d1: f32 = Distances::euclidian().distance(&x, &y);
        let d2: f32 = Distances::euclidian().distance(&y, &x);
        assert!(d1.to_bits() == d2.to_bits() || (d1.is_nan() && d2.is_nan()));
        assert!(d1.is_nan() || d1 >= 0.0);
    }

    #[kani::proof]
    #[kani::unwind(5)]
    fn manh_triangle_3_lat() {
        let mut a = [0f64; 3]; let mut b = [0f64; 3]; let mut c = [0f64; 3];
        for t in 0..3 { a[t] = lat(-8, 8).1; b[t] = lat(-8, 8).1; c[t] = lat(-8, 8).1; }
        let (x, y, z) = (a.to_vec(), b.to_vec(), c.to_vec());
        let m = Distances::manhattan();
        let dxy: f64 = m.distance(&x, &y); let dyz: f64 = m.distance(&y, &z); let dxz: f64 = m.distance(&x, &z);
        assert!(dxz <= dxy + dyz);
    }

    #[kani::proof]
    fn math_fns() {
        let e = 1.0f64.exp();
        assert!(e > 2.718 && e < 2.719);
        let l = 8.0f64.ln();
        assert!(l > 2.079 && l < 2.080);
        let p = 2.0f64.powf(3.0);
        assert!(p == 8.0);
        let s = 9.0f64.sqrt();
        assert!(s == 3.0);
        let t = 0.5f64.tanh();
        assert!(t > 0.46 && t < 0.47);
        let pi = 1.5f64.powi(2);
        assert!(pi == 2.25);
        let l2 = 8.0f64.log2();
        assert!(l2 == 3.0);
    }

    #[kani::proof]
    fn math_fns_sym() {
        let x: f64 = kani::any();
        kani::assume(x > 0.5 && x < 4.0);
        let a = x.ln(); let b = x.ln();
        assert!(a == b);           // deterministic?
        let y: f64 = kani::any();
        kani::assume(y > x && y < 5.0);
        assert!(y.ln() >= x.ln()); // monotone?
        assert!(x.exp() > 0.0);
    }
}
