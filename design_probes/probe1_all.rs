#[cfg(kani)]
mod h {
    use smartcore::linalg::naive::dense_matrix::DenseMatrix;
    use smartcore::linalg::{BaseMatrix, BaseVector};
    use smartcore::algorithm::neighbour::cover_tree::CoverTree;
    use smartcore::algorithm::neighbour::linear_search::LinearKNNSearch;
    use smartcore::algorithm::neighbour::KNNAlgorithmName;
    use smartcore::math::distance::Distance;
    use smartcore::math::distance::Distances;
    use smartcore::model_selection::{KFold, BaseKFold};
    use smartcore::tree::decision_tree_regressor::*;
    use smartcore::cluster::dbscan::*;

    fn lat(lo: i8, hi: i8) -> (i32, f64) { let k: i8 = kani::any(); kani::assume(k >= lo && k <= hi); (k as i32, k as f64) }

    #[derive(Clone, Debug)]
    struct AbsD;
    impl Distance<i32, f64> for AbsD { fn distance(&self, a: &i32, b: &i32) -> f64 { (a - b).abs() as f64 } }

    #[kani::proof]
    #[kani::unwind(6)]
    fn linear_find_4() {
        let mut d = [0i32; 4];
        for t in 0..4 { d[t] = lat(-4, 4).0; }
        let q = lat(-4, 4).0;
        let k: usize = kani::any(); kani::assume(k >= 1 && k <= 4);
        let s = LinearKNNSearch::new(d.to_vec(), AbsD).unwrap();
        let r = s.find(&q, k).unwrap();
        assert!(r.len() == k);
        // kth smallest check: every returned dist <= every non returned dist
        let mut inr = [false; 4];
        for e in r.iter() { assert!(e.0 < 4); assert!(!inr[e.0]); inr[e.0] = true; assert!(e.1 == (d[e.0]-q).abs() as f64); }
        for i in 0..4 { for j in 0..4 { if inr[i] && !inr[j] { assert!((d[i]-q).abs() <= (d[j]-q).abs()); } } }
    }

    #[kani::proof]
    #[kani::unwind(6)]
    fn cover_tree_3() {
        let mut d = [0i32; 3];
        for t in 0..3 { d[t] = lat(-4, 4).0; }
        let q = lat(-4, 4).0;
        let t = CoverTree::new(d.to_vec(), AbsD).unwrap();
        let r = t.find(&q, 1).unwrap();
        assert!(r.len() == 1);
        let best = r[0].1;
        for i in 0..3 { assert!(best <= (d[i]-q).abs() as f64); }
    }

    #[kani::proof]
    #[kani::unwind(9)]
    fn kfold_n7() {
        let x: DenseMatrix<f64> = DenseMatrix::zeros(7, 1);
        let k: usize = kani::any(); kani::assume(k >= 2 && k <= 7);
        let kf = KFold { n_splits: k, shuffle: false };
        let mut seen = [0u8; 7];
        let mut folds = 0usize;
        for (train, test) in kf.split(&x) {
            folds += 1;
            assert!(train.len() + test.len() == 7);
            assert!(test.len() == 7 / k || test.len() == 7 / k + 1);
            for &i in test.iter() { seen[i] += 1; }
        }
        assert!(folds == k);
        for i in 0..7 { assert!(seen[i] == 1); }
    }

    #[kani::proof]
    #[kani::unwind(6)]
    fn tree_reg_4() {
        let mut xs = [0f64; 4]; let mut ys = [0f64; 4];
        for t in 0..4 { xs[t] = lat(0, 3).1; ys[t] = lat(-2, 2).1; }
        let x = DenseMatrix::from_array(4, 1, &xs);
        let y = ys.to_vec();
        let t = DecisionTreeRegressor::fit(&x, &y, Default::default()).unwrap();
        let p = t.predict(&x).unwrap();
        // rows with equal x must get equal predictions
        for i in 0..4 { for j in 0..4 { if xs[i] == xs[j] { assert!(p[i] == p[j]); } } }
    }

    #[kani::proof]
    #[kani::unwind(6)]
    fn dbscan_4() {
        let mut xs = [0f64; 4];
        for t in 0..4 { xs[t] = lat(0, 5).1; }
        let x = DenseMatrix::from_array(4, 1, &xs);
        let ms: usize = kani::any(); kani::assume(ms >= 1 && ms <= 3);
        let m = DBSCAN::fit(&x, DBSCANParameters::default().with_eps(1.0).with_min_samples(ms).with_algorithm(KNNAlgorithmName::LinearSearch)).unwrap();
        let p = m.predict(&x).unwrap();
        assert!(p.len() == 4);
    }

    #[kani::proof]
    #[kani::unwind(10)]
    fn argsort_8() {
        use smartcore::metrics::auc::AUC;
        let s: [f32; 8] = kani::any();
        for t in 0..8 { kani::assume(s[t].is_finite()); }
        let yt = vec![0f64, 1., 0., 1., 0., 1., 0., 1.];
        let ys: Vec<f64> = s.iter().map(|v| *v as f64).collect();
        let a = AUC{}.get_score(&yt, &ys);
        assert!(a >= 0.0 && a <= 1.0);
    }
}
