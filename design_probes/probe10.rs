#[cfg(kani)]
mod h {
    use smartcore::linalg::naive::dense_matrix::DenseMatrix;
    use smartcore::linalg::{BaseMatrix, BaseVector, Matrix};
    use smartcore::algorithm::neighbour::cover_tree::CoverTree;
    use smartcore::algorithm::neighbour::linear_search::LinearKNNSearch;
    use smartcore::algorithm::neighbour::KNNAlgorithmName;
    use smartcore::math::distance::Distance;
    use smartcore::tree::decision_tree_regressor::*;
    use smartcore::cluster::dbscan::*;
    use smartcore::neighbors::knn_regressor::*;
    use smartcore::model_selection::*;
    use smartcore::api::Predictor;
    use smartcore::error::{Failed, FailedError};
    use smartcore::math::num::RealNumber;
    use rand::rngs::adapter::ReseedingRng;
    use rand::rngs::OsRng;
    use rand::rngs::ThreadRng;
    use rand_chacha::ChaCha12Core;
    use std::rc::Rc;
    use std::cell::UnsafeCell;

    fn fake_thread_rng() -> ThreadRng {
        let r: Rc<UnsafeCell<std::mem::MaybeUninit<ReseedingRng<ChaCha12Core, OsRng>>>> = Rc::new(UnsafeCell::new(std::mem::MaybeUninit::uninit()));
        unsafe { std::mem::transmute::<_, ThreadRng>(r) }
    }
    fn trap_because(_e: FailedError, _m: &str) -> Failed { panic!("VP:unexpected-err") }
    fn trap_fit(_m: &str) -> Failed { panic!("VP:unexpected-err") }
    fn trap_predict(_m: &str) -> Failed { panic!("VP:unexpected-err") }
    fn trap_transform(_m: &str) -> Failed { panic!("VP:unexpected-err") }
    fn no_format(_a: std::fmt::Arguments<'_>) -> String { String::new() }

    fn lat(lo: i8, hi: i8) -> (i32, f64) { let k: i8 = kani::any(); kani::assume(k >= lo && k <= hi); (k as i32, k as f64) }

    #[derive(Clone, Debug)]
    struct AbsD;
    impl Distance<i32, f64> for AbsD { fn distance(&self, a: &i32, b: &i32) -> f64 { (a - b).abs() as f64 } }

    macro_rules! traps { ($(#[$m:meta])* fn $name:ident() $body:block) => {
        #[kani::proof]
        #[kani::stub(smartcore::error::Failed::because, trap_because)]
        #[kani::stub(smartcore::error::Failed::fit, trap_fit)]
        #[kani::stub(smartcore::error::Failed::predict, trap_predict)]
        #[kani::stub(smartcore::error::Failed::transform, trap_transform)]
        #[kani::stub(std::fmt::format, no_format)]
        #[kani::stub(rand::thread_rng, fake_thread_rng)]
        $(#[$m])*
        fn $name() $body
    } }

    traps! { #[kani::unwind(6)] fn dbscan_4() {
        let mut xs = [0f64; 4];
        for t in 0..4 { xs[t] = lat(0, 5).1; }
        let x = DenseMatrix::from_array(4, 1, &xs);
        let ms: usize = kani::any(); kani::assume(ms >= 1 && ms <= 3);
        if let Ok(m) = DBSCAN::fit(&x, DBSCANParameters::default().with_eps(1.0).with_min_samples(ms).with_algorithm(KNNAlgorithmName::LinearSearch)) {
            if let Ok(p) = m.predict(&x) { assert!(p.len() == 4); }
        }
    } }

    traps! { #[kani::unwind(6)] fn cover_tree_3() {
        let mut d = [0i32; 3];
        for t in 0..3 { d[t] = lat(-4, 4).0; }
        let q = lat(-4, 4).0;
        if let Ok(t) = CoverTree::new(d.to_vec(), AbsD) {
            if let Ok(r) = t.find(&q, 1) {
                assert!(r.len() == 1);
                let best = r[0].1;
                for i in 0..3 { assert!(best <= (d[i]-q).abs() as f64); }
            }
        }
    } }

    traps! { #[kani::unwind(6)] fn linear_find_4_symk() {
        let mut d = [0i32; 4];
        for t in 0..4 { d[t] = lat(-4, 4).0; }
        let q = lat(-4, 4).0;
        let k: usize = kani::any(); kani::assume(k >= 1 && k <= 4);
        if let Ok(s) = LinearKNNSearch::new(d.to_vec(), AbsD) { if let Ok(r) = s.find(&q, k) {
            assert!(r.len() == k);
        } }
    } }

    traps! { #[kani::unwind(6)] fn tree_reg_4() {
        let mut xs = [0f64; 4]; let mut ys = [0f64; 4];
        for t in 0..4 { xs[t] = lat(0, 3).1; ys[t] = lat(-2, 2).1; }
        let x = DenseMatrix::from_array(4, 1, &xs);
        let y = ys.to_vec();
        if let Ok(t) = DecisionTreeRegressor::fit(&x, &y, Default::default()) { if let Ok(p) = t.predict(&x) {
            for i in 0..4 { for j in 0..4 { if xs[i] == xs[j] { assert!(p[i] == p[j]); } } }
        } }
    } }

    traps! { #[kani::unwind(5)] fn knn_reg_3_k2() {
        let mut xs = [0f64; 3];
        for t in 0..3 { xs[t] = lat(0, 4).1; }
        let ys = vec![0f64, 4.0, 8.0];
        let q = lat(0, 4).1;
        let x = DenseMatrix::from_array(3, 1, &xs);
        let qm = DenseMatrix::from_array(1, 1, &[q]);
        if let Ok(m) = KNNRegressor::fit(&x, &ys, KNNRegressorParameters::default().with_k(2).with_algorithm(KNNAlgorithmName::LinearSearch)) {
            if let Ok(p) = m.predict(&qm) { assert!(p[0] >= 0.0 && p[0] <= 8.0); }
        }
    } }

    struct SymSplit { mask: [bool; 4] }
    impl BaseKFold for SymSplit {
        type Output = std::vec::IntoIter<(Vec<usize>, Vec<usize>)>;
        fn n_splits(&self) -> usize { 2 }
        fn split<T: RealNumber, M: Matrix<T>>(&self, _x: &M) -> Self::Output {
            let mut a = Vec::new(); let mut b = Vec::new();
            for i in 0..4 { if self.mask[i] { a.push(i) } else { b.push(i) } }
            vec![(a.clone(), b.clone()), (b, a)].into_iter()
        }
    }
    struct Echo { seen: [bool; 4] }
    impl Predictor<DenseMatrix<f64>, Vec<f64>> for Echo {
        fn predict(&self, x: &DenseMatrix<f64>) -> Result<Vec<f64>, Failed> {
            let n = x.shape().0; let mut out = vec![0f64; n];
            for i in 0..n { let id = x.get(i, 0) as usize; assert!(!self.seen[id]); out[i] = x.get(i, 0) + 10.0; }
            Ok(out)
        }
    }
    traps! { #[kani::unwind(6)] fn cvp_n4() {
        let x = DenseMatrix::from_array(4, 1, &[0f64, 1., 2., 3.]);
        let y = vec![0f64, 1., 2., 3.];
        let mask: [bool; 4] = kani::any();
        kani::assume((mask[0] || mask[1] || mask[2] || mask[3]) && !(mask[0] && mask[1] && mask[2] && mask[3]));
        let fit = |xt: &DenseMatrix<f64>, yt: &Vec<f64>, _p: ()| -> Result<Echo, Failed> {
            let mut seen = [false; 4];
            for i in 0..xt.shape().0 { let id = xt.get(i, 0) as usize; assert!(yt[i] == xt.get(i, 0)); seen[id] = true; }
            Ok(Echo { seen })
        };
        if let Ok(p) = cross_val_predict(fit, &x, &y, (), SymSplit { mask }) { for i in 0..4 { assert!(p[i] == i as f64 + 10.0); } }
    } }
}
