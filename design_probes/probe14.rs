#[cfg(kani)]
mod h {
    use smartcore::linalg::naive::dense_matrix::DenseMatrix;
    use smartcore::linalg::BaseMatrix;

    fn rec_exp(x: f64) -> f64 { x }

    #[kani::proof]
    #[kani::unwind(5)]
    fn softmax_1x2() {
        let a: [f64; 2] = kani::any();
        kani::assume(a[0].is_finite() && a[1].is_finite() && a[0].abs() < 1e3 && a[1].abs() < 1e3);
        let mut m = DenseMatrix::from_array(1, 2, &a);
        m.softmax_mut();
        if cfg!(vp_playback) { println!("PLAYBACK-CFG-ON a={:?} out=({}, {})", a, m.get(0,0), m.get(0,1)); }
        let p0 = m.get(0,0); let p1 = m.get(0,1);
        assert!(p0 >= 0.0 && p1 >= 0.0 && (p0 + p1 - 1.0).abs() < 1e-9, "VP:C03:softmax");
    }

    /// Test generated for harness `h::softmax_1x2`
    ///
    /// Check for `assertion`: ""VP:C03:softmax""

    #[test]
    fn kani_concrete_playback_softmax_1x2_16172745527370146695() {
        let concrete_vals: Vec<Vec<u8>> = vec![
        // 0
        vec![0, 0, 0, 0, 0, 0, 0, 0],
        // 709.782713
        vec![239, 57, 250, 254, 66, 46, 134, 64],
    ];
    kani::concrete_playback_run(concrete_vals, softmax_1x2);
}
}
