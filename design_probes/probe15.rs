#[cfg(kani)]
mod h {
    use smartcore::linalg::naive::dense_matrix::DenseMatrix;
    use smartcore::linalg::{BaseMatrix, BaseVector, Matrix};
    use smartcore::linalg::high_order::HighOrderOperations;
    use smartcore::verif_hooks::*;
    use smartcore::tree::decision_tree_classifier::*;
    use smartcore::svm::{Kernels, LinearKernel};
    use ndarray::{Array2, arr2};

    fn lat(lo: i8, hi: i8) -> (i32, f64) { let k: i8 = kani::any(); kani::assume(k >= lo && k <= hi); (k as i32, k as f64) }

    #[kani::proof]
    #[kani::unwind(5)]
    fn tree_cls_step_3() {
        // distinct feature values (property precondition): a permutation-free way: x = distinct lattice values
        let mut xs = [0f64; 3]; let mut xi = [0i32; 3];
        for t in 0..3 { let (a, b) = lat(0, 4); xs[t] = b; xi[t] = a; }
        kani::assume(xi[0] != xi[1] && xi[1] != xi[2] && xi[0] != xi[2]);
        let y: [bool; 3] = kani::any();
        let yi = [y[0] as usize, y[1] as usize, y[2] as usize];
        let mut w = [0usize; 3];
        for t in 0..3 { let k: u8 = kani::any(); kani::assume(k <= 2); w[t] = k as usize; }
        let x = DenseMatrix::from_array(3, 1, &xs);
        let r = verif_best_split_classifier(&x, &yi, 2, w.to_vec(), DecisionTreeClassifierParameters::default());
        if let Some((f, thr, tl, fl)) = r {
            assert!(f == 0 && tl < 2 && fl < 2);
            // threshold separates present rows into two non-empty sides
            let mut tc = 0; let mut fc = 0;
            for i in 0..3 { if w[i] > 0 { if xs[i] <= thr { tc += w[i] } else { fc += w[i] } } }
            assert!(tc > 0 && fc > 0);
        }
    }

    #[kani::proof]
    #[kani::unwind(5)]
    fn svc_predict_parts() {
        let (s0i, s0) = lat(-3, 3); let (s1i, s1) = lat(-3, 3);
        let (w0i, w0) = lat(-3, 3); let (w1i, w1) = lat(-3, 3); let (bi, b) = lat(-3, 3);
        let (qi, q) = lat(-3, 3);
        let (ci, c0) = lat(-5, 5); let (di, c1) = lat(-5, 5); kani::assume(ci < di);
        let m = verif_svc_from_parts::<f64, DenseMatrix<f64>, LinearKernel>(vec![c0, c1], Kernels::linear(), vec![vec![s0], vec![s1]], vec![w0, w1], b);
        let x = DenseMatrix::from_array(1, 1, &[q]);
        let dec = w0i*s0i*qi + w1i*s1i*qi + bi;
        if let Ok(d) = m.decision_function(&x) { assert!(d[0] == dec as f64); }
        if let Ok(p) = m.predict(&x) { assert!(p[0] == if dec > 0 { c1 } else { c0 }); }
    }

    #[kani::proof]
    #[kani::unwind(5)]
    fn kmeans_predict_parts() {
        let (c0i, c0) = lat(-4, 4); let (c1i, c1) = lat(-4, 4); let (c2i, c2) = lat(-4, 4);
        let (qi, q) = lat(-5, 5);
        let m = verif_kmeans_from_centroids(vec![vec![c0], vec![c1], vec![c2]]);
        let x = DenseMatrix::from_array(1, 1, &[q]);
        if let Ok(p) = m.predict(&x) {
            let lab = p[0] as usize; assert!(lab < 3);
            let cs = [c0i, c1i, c2i];
            for j in 0..3 { assert!((qi-cs[lab])*(qi-cs[lab]) <= (qi-cs[j])*(qi-cs[j])); }
        }
    }

    #[kani::proof]
    #[kani::unwind(8)]
    fn heap_k3_n6() {
        let mut hs: HeapSelection<i32> = HeapSelection::with_capacity(3);
        let v: [i8; 6] = kani::any();
        for t in 0..6 { hs.add(v[t] as i32); }
        let top = *hs.peek();
        let mut le = 0; let mut lt = 0;
        for t in 0..6 { if (v[t] as i32) <= top { le += 1 } if (v[t] as i32) < top { lt += 1 } }
        assert!(le >= 3 && lt <= 2);
    }

    #[kani::proof]
    #[kani::unwind(8)]
    fn take_slice_reshape_2x3() {
        let v: [f64; 6] = kani::any();
        let m = DenseMatrix::from_array(2, 3, &v);
        let i0: usize = kani::any(); let i1: usize = kani::any(); kani::assume(i0 < 3 && i1 < 3);
        let t = m.take(&[i0, i1], 1);
        assert!(t.shape() == (2, 2));
        for r in 0..2 { assert!(t.get(r, 0).to_bits() == v[r*3+i0].to_bits() && t.get(r, 1).to_bits() == v[r*3+i1].to_bits()); }
        let r = m.reshape(3, 2);
        for k in 0..6 { assert!(r.get(k/2, k%2).to_bits() == v[k].to_bits()); }
        let c0: usize = kani::any(); kani::assume(c0 <= 1);
        let s = m.slice(0..2, c0..c0+2);
        for rr in 0..2 { for cc in 0..2 { assert!(s.get(rr, cc).to_bits() == v[rr*3 + c0 + cc].to_bits()); } }
    }

    #[kani::proof]
    #[kani::unwind(8)]
    fn ab_flags_2x3() {
        let mut ai = [0i32; 6]; let mut a = [0f64; 6]; let mut bi = [0i32; 6]; let mut b = [0f64; 6];
        for t in 0..6 { let (i, f) = lat(-2, 2); ai[t] = i; a[t] = f; let (i, f) = lat(-2, 2); bi[t] = i; b[t] = f; }
        let ma = DenseMatrix::from_array(2, 3, &a); let mb = DenseMatrix::from_array(2, 3, &b);
        // A^T B : 3x3
        let p = ma.ab(true, &mb, false);
        assert!(p.shape() == (3, 3));
        for i in 0..3 { for j in 0..3 { let mut s = 0; for k in 0..2 { s += ai[k*3+i]*bi[k*3+j]; } assert!(p.get(i,j) == s as f64); } }
        // A B^T : 2x2
        let q = ma.ab(false, &mb, true);
        assert!(q.shape() == (2, 2));
        for i in 0..2 { for j in 0..2 { let mut s = 0; for k in 0..3 { s += ai[i*3+k]*bi[j*3+k]; } assert!(q.get(i,j) == s as f64); } }
    }

    #[kani::proof]
    #[kani::unwind(8)]
    fn nd_transposed_flatten() {
        let v: [f64; 6] = kani::any();
        let a: Array2<f64> = arr2(&[[v[0], v[1], v[2]], [v[3], v[4], v[5]]]);
        let t = BaseMatrix::transpose(&a);           // 3x2, non-standard layout
        let r = BaseMatrix::reshape(&t, 2, 3);       // logical row-major of t: t00 t01 t10 t11 t20 t21
        let tv = [v[0], v[3], v[1], v[4], v[2], v[5]];
        for k in 0..6 { assert!(BaseMatrix::get(&r, k/3, k%3).to_bits() == tv[k].to_bits()); }
    }
}
