#[cfg(kani)]
mod h {
    use smartcore::linalg::naive::dense_matrix::DenseMatrix;
    use smartcore::linalg::{BaseMatrix, BaseVector};
    use smartcore::verif_hooks::*;
    use smartcore::tree::decision_tree_regressor::*;
    use smartcore::model_selection::*;
    use smartcore::cluster::dbscan::*;
    use smartcore::algorithm::neighbour::KNNAlgorithmName;
    use smartcore::api::Predictor;
    use smartcore::error::Failed;
    use smartcore::linalg::cholesky::CholeskyDecomposableMatrix;
    use rand::rngs::adapter::ReseedingRng;
    use rand::rngs::OsRng;
    use rand::rngs::ThreadRng;
    use rand_chacha::ChaCha12Core;
    use std::rc::Rc;
    use std::cell::UnsafeCell;

    fn fake_thread_rng() -> ThreadRng {
        let r: Rc<UnsafeCell<std::mem::MaybeUninit<ReseedingRng<ChaCha12Core, OsRng>>>> = Rc::new(UnsafeCell::new(std::mem::MaybeUninit::uninit()));
        unsafe { std::mem::transmute::<_, ThreadRng>(r) }
    }
    trait Sl { fn sl(&mut self) -> &mut [usize]; }
    impl Sl for [usize] { fn sl(&mut self) -> &mut [usize] { self } }
    fn any_perm<S: ?Sized + Sl, R: ?Sized>(s: &mut S, _rng: &mut R) {
        let s = s.sl();
        let n = s.len();
        for i in 0..n { let j: usize = kani::any(); kani::assume(j >= i && j < n); s.swap(i, j); }
    }

    fn lat(lo: i8, hi: i8) -> (i32, f64) { let k: i8 = kani::any(); kani::assume(k >= lo && k <= hi); (k as i32, k as f64) }

    // find_new_idxs: p = 4, two categorical columns at symbolic positions
    #[kani::proof]
    #[kani::unwind(8)]
    fn fni_p4_c2() {
        let i0: usize = kani::any(); let i1: usize = kani::any();
        kani::assume(i0 < i1 && i1 < 4);
        let k0: usize = kani::any(); let k1: usize = kani::any();
        kani::assume(k0 >= 1 && k0 <= 3 && k1 >= 1 && k1 <= 3);
        let r = verif_find_new_idxs(4, &[k0, k1], &[i0, i1]);
        assert!(r.len() == 4);
        for c in 0..4 {
            let mut e = c;
            if c > i0 { e += k0 - 1; }
            if c > i1 { e += k1 - 1; }
            assert!(r[c] == e);
        }
    }

    #[kani::proof]
    #[kani::unwind(6)]
    fn heap_k2_n4() {
        let mut hs: HeapSelection<i32> = HeapSelection::with_capacity(2);
        let v: [i8; 4] = kani::any();
        for t in 0..4 { hs.add(v[t] as i32); }
        let top = *hs.peek();
        // top must be the 2nd smallest
        let mut le = 0; let mut lt = 0;
        for t in 0..4 { if (v[t] as i32) <= top { le += 1 } if (v[t] as i32) < top { lt += 1 } }
        assert!(le >= 2 && lt <= 1);
    }

    #[kani::proof]
    #[kani::unwind(6)]
    fn tree_split_step_4() {
        let mut xs = [0f64; 4]; let mut ys = [0f64; 4]; let mut xi = [0i32; 4]; let mut yi = [0i32; 4];
        for t in 0..4 { let (a, b) = lat(0, 3); xs[t] = b; xi[t] = a; let (a, b) = lat(-2, 2); ys[t] = b; yi[t] = a; }
        let mut w = [0usize; 4];
        for t in 0..4 { let k: u8 = kani::any(); kani::assume(k <= 2); w[t] = k as usize; }
        kani::assume(w[0] + w[1] + w[2] + w[3] >= 2);
        let x = DenseMatrix::from_array(4, 1, &xs);
        let y = ys.to_vec();
        let r = verif_best_split_regressor(&x, &y, w.to_vec(), DecisionTreeRegressorParameters::default());
        // oracle: exists threshold between distinct present x values
        let mut distinct = false;
        for i in 0..4 { for j in 0..4 { if w[i] > 0 && w[j] > 0 && xi[i] != xi[j] { distinct = true; } } }
        assert!(r.is_some() == distinct);
        if let Some((f, thr, tm, fm)) = r {
            assert!(f == 0);
            // means of the two sides at the threshold, in integers: tm * tc == tsum
            let mut tc = 0i32; let mut ts = 0i32; let mut fc = 0i32; let mut fs = 0i32;
            for i in 0..4 { if xs[i] <= thr { tc += w[i] as i32; ts += (w[i] as i32) * yi[i]; } else { fc += w[i] as i32; fs += (w[i] as i32) * yi[i]; } }
            assert!(tc > 0 && fc > 0);
            assert!((tm * tc as f64 - ts as f64).abs() < 1e-9 && (fm * fc as f64 - fs as f64).abs() < 1e-9);
        }
    }

    #[kani::proof]
    #[kani::unwind(7)]
    #[kani::stub(rand::thread_rng, fake_thread_rng)]
    #[kani::stub(rand::seq::SliceRandom::shuffle, any_perm)]
    fn tts_n5() {
        let v: [f64; 5] = kani::any();
        let x = DenseMatrix::from_array(5, 1, &v);
        let y = vec![0f64, 1., 2., 3., 4.];
        let (xtr, xte, ytr, yte) = train_test_split(&x, &y, 0.4, true);
        assert!(xte.shape().0 == 2 && xtr.shape().0 == 3 && ytr.len() == 3 && yte.len() == 2);
        let mut seen = [0u8; 5];
        for i in 0..3 { let id = ytr[i] as usize; seen[id] += 1; assert!(xtr.get(i, 0).to_bits() == v[id].to_bits()); }
        for i in 0..2 { let id = yte[i] as usize; seen[id] += 1; assert!(xte.get(i, 0).to_bits() == v[id].to_bits()); }
        for i in 0..5 { assert!(seen[i] == 1); }
    }

    #[kani::proof]
    #[kani::unwind(6)]
    #[kani::stub(rand::thread_rng, fake_thread_rng)]
    fn kfold_n4_k2() {
        let x: DenseMatrix<f64> = DenseMatrix::zeros(4, 1);
        let kf = KFold { n_splits: 2, shuffle: false };
        let mut seen = [0u8; 4];
        for (train, test) in kf.split(&x) {
            assert!(train.len() + test.len() == 4);
            for &i in test.iter() { seen[i] += 1; }
        }
        for i in 0..4 { assert!(seen[i] == 1); }
    }

    #[kani::proof]
    #[kani::unwind(5)]
    fn dbscan_3() {
        let mut xs = [0f64; 3];
        for t in 0..3 { xs[t] = lat(0, 4).1; }
        let x = DenseMatrix::from_array(3, 1, &xs);
        let m = DBSCAN::fit(&x, DBSCANParameters::default().with_eps(1.0).with_min_samples(2).with_algorithm(KNNAlgorithmName::LinearSearch)).unwrap();
        let p = m.predict(&x).unwrap();
        assert!(p.len() == 3);
    }

    #[kani::proof]
    #[kani::unwind(5)]
    fn chol_2x2_lat_f32() {
        let (ai, a) = lat(1, 8); let (bi, b) = lat(-4, 4); let (di, d) = lat(1, 8);
        kani::assume(ai*di - bi*bi > 0);
        let m = DenseMatrix::from_array(2, 2, &[a as f32, b as f32, b as f32, d as f32]);
        let c = m.cholesky().unwrap();
        let l = c.L(); let llt = l.matmul(&l.transpose());
        assert!(l.get(0,1) == 0.0);
        for i in 0..2 { for j in 0..2 { assert!((m.get(i,j) - llt.get(i,j)).abs() <= 16.0 * f32::EPSILON * 8.0); } }
    }
}
