#[cfg(kani)]
mod h {
    use smartcore::linalg::naive::dense_matrix::DenseMatrix;
    use smartcore::linalg::{BaseMatrix, BaseVector};
    use smartcore::linalg::lu::LUDecomposableMatrix;
    use smartcore::linalg::cholesky::CholeskyDecomposableMatrix;
    use smartcore::preprocessing::categorical::*;
    use smartcore::linear::lasso::*;

    fn lat(lo: i8, hi: i8) -> (i32, f64) { let k: i8 = kani::any(); kani::assume(k >= lo && k <= hi); (k as i32, k as f64) }

    // one-hot: 2 rows x 3 cols, cat cols {0,1}, plain col 2
    #[kani::proof]
    #[kani::unwind(8)]
    fn onehot_2x3_cat01() {
        let c00 = lat(0, 1).1; let c10 = lat(0, 1).1; let c01 = lat(0, 1).1; let c11 = lat(0, 1).1;
        let p0: f64 = kani::any(); let p1: f64 = kani::any();
        kani::assume(p0.is_finite() && p1.is_finite());
        let m = DenseMatrix::from_2d_array(&[&[c00, c01, p0], &[c10, c11, p1]]);
        let enc = OneHotEncoder::fit(&m, OneHotEncoderParams::from_cat_idx(&[0, 1])).unwrap();
        let t = enc.transform(&m).unwrap();
        let k0 = if c00 == c10 { 1 } else { 2 }; let k1 = if c01 == c11 { 1 } else { 2 };
        assert!(t.shape() == (2, k0 + k1 + 1));
        assert!(t.get(0, k0 + k1) == p0 && t.get(1, k0 + k1) == p1);
    }

    #[kani::proof]
    #[kani::unwind(5)]
    fn lu_2x2_lat_resid() {
        let mut a = [0f64; 4]; let mut ai = [0i32; 4];
        for t in 0..4 { let (i, f) = lat(-4, 4); a[t] = f; ai[t] = i; }
        kani::assume(ai[0]*ai[3] - ai[1]*ai[2] != 0);
        let m = DenseMatrix::from_array(2, 2, &a);
        let lu = m.lu().unwrap();
        let (l, u, p) = (lu.L(), lu.U(), lu.pivot());
        let pa = p.matmul(&m); let lu_ = l.matmul(&u);
        for i in 0..2 { for j in 0..2 { assert!((pa.get(i,j) - lu_.get(i,j)).abs() <= 16.0 * f64::EPSILON * 4.0); } }
    }

    #[kani::proof]
    #[kani::unwind(5)]
    fn chol_2x2_lat_resid() {
        let (ai, a) = lat(1, 8); let (bi, b) = lat(-4, 4); let (di, d) = lat(1, 8);
        kani::assume(ai*di - bi*bi > 0);
        let m = DenseMatrix::from_array(2, 2, &[a, b, b, d]);
        let c = m.cholesky().unwrap();
        let l = c.L(); let llt = l.matmul(&l.transpose());
        assert!(l.get(0,1) == 0.0);
        for i in 0..2 { for j in 0..2 { assert!((m.get(i,j) - llt.get(i,j)).abs() <= 16.0 * f64::EPSILON * 8.0); } }
    }

    #[kani::proof]
    #[kani::unwind(5)]
    #[kani::should_panic]
    fn add_mismatch_panics() {
        let a: DenseMatrix<f64> = DenseMatrix::zeros(2, 3);
        let b: DenseMatrix<f64> = DenseMatrix::zeros(3, 2);
        let _ = a.add(&b);
    }

}
