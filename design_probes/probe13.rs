#[cfg(kani)]
mod h {
    use smartcore::linalg::naive::dense_matrix::DenseMatrix;
    use smartcore::linalg::{BaseMatrix, BaseVector, Matrix};
    use smartcore::verif_hooks::*;
    use smartcore::error::{Failed, FailedError};
    use smartcore::math::num::RealNumber;
    use smartcore::linear::ridge_regression::*;
    use smartcore::linear::lasso::*;
    use smartcore::decomposition::pca::*;
    use smartcore::math::distance::{Distance, Distances};

    fn trap_because(_e: FailedError, _m: &str) -> Failed { panic!("VP:unexpected-err") }
    fn trap_fit(_m: &str) -> Failed { panic!("VP:unexpected-err") }
    fn trap_predict(_m: &str) -> Failed { panic!("VP:unexpected-err") }
    fn trap_transform(_m: &str) -> Failed { panic!("VP:unexpected-err") }
    fn no_format(_a: std::fmt::Arguments<'_>) -> String { String::new() }
    fn hyp32(x: f32, y: f32) -> f32 { (x*x + y*y).sqrt() }
    fn lat(lo: i8, hi: i8) -> (i32, f64) { let k: i8 = kani::any(); kani::assume(k >= lo && k <= hi); (k as i32, k as f64) }

    static mut LOG: [f64; 8] = [0.0; 8];
    static mut NLOG: usize = 0;
    fn rec_exp(x: f64) -> f64 { unsafe { if NLOG < 8 { LOG[NLOG] = x; NLOG += 1; } } x }
    fn rec_powf(b: f64, e: f64) -> f64 { unsafe { if NLOG + 1 < 8 { LOG[NLOG] = b; LOG[NLOG+1] = e; NLOG += 2; } } b }

    macro_rules! traps { ($(#[$m:meta])* fn $name:ident() $body:block) => {
        #[kani::proof]
        #[kani::stub(smartcore::error::Failed::because, trap_because)]
        #[kani::stub(smartcore::error::Failed::fit, trap_fit)]
        #[kani::stub(smartcore::error::Failed::predict, trap_predict)]
        #[kani::stub(smartcore::error::Failed::transform, trap_transform)]
        #[kani::stub(std::fmt::format, no_format)]
        #[kani::stub(f32::hypot, hyp32)]
        $(#[$m])*
        fn $name() $body
    } }

    traps! { #[kani::unwind(5)] fn ridge_p1_n3_f32() {
        let mut x = [0f32; 3]; let mut xi = [0i32; 3]; let mut y = [0f32; 3]; let mut yi = [0i32; 3];
        for t in 0..3 { let (i, f) = lat(-3, 3); x[t] = f as f32; xi[t] = i; let (i, f) = lat(-4, 4); y[t] = f as f32; yi[t] = i; }
        let xm = DenseMatrix::from_array(3, 1, &x);
        let p = RidgeRegressionParameters::default().with_alpha(1.0f32).with_normalize(false);
        if let Ok(m) = RidgeRegression::fit(&xm, &y.to_vec(), p) {
            let w = m.coefficients().get(0, 0);
            let sxx = (xi[0]*xi[0] + xi[1]*xi[1] + xi[2]*xi[2] + 1) as f32;
            let sxy = (xi[0]*yi[0] + xi[1]*yi[1] + xi[2]*yi[2]) as f32;
            assert!(m.intercept() == 0.0);
            assert!((w * sxx - sxy).abs() <= 16.0 * f32::EPSILON * (1.0 + sxy.abs()));
        }
    } }

    traps! { #[kani::unwind(5)] fn pca_p1_n3_f32() {
        let mut x = [0f32; 3]; let mut xi = [0i32; 3];
        for t in 0..3 { let (i, f) = lat(-4, 4); x[t] = f as f32; xi[t] = i; }
        kani::assume(!(xi[0] == xi[1] && xi[1] == xi[2]));
        let xm = DenseMatrix::from_array(3, 1, &x);
        if let Ok(m) = PCA::fit(&xm, PCAParameters::default().with_n_components(1)) {
            let c = m.components().get(0, 0);
            assert!(c == 1.0 || c == -1.0);
            if let Ok(t) = m.transform(&xm) {
                let s = (xi[0] + xi[1] + xi[2]) as f32;
                for i in 0..3 { let want = c * (x[i] - s / 3.0); assert!((t.get(i, 0) - want).abs() <= 1e-5); }
            }
        }
    } }

    fn trap_opt<T: RealNumber, M: Matrix<T>>(_s: &mut InteriorPointOptimizer<T, M>, _x: &M, _y: &M::RowVector, _l: T, _m: usize, _t: T) -> Result<M, Failed> { panic!("VP:C08:reached-optimizer") }

    #[kani::proof]
    #[kani::unwind(5)]
    #[kani::stub(smartcore::linear::lasso_optimizer::InteriorPointOptimizer::optimize, trap_opt)]
    #[kani::stub(std::fmt::format, no_format)]
    fn lasso_invalid_params() {
        let v: [f64; 3] = kani::any();
        for t in 0..3 { kani::assume(v[t].is_finite()); }
        let x = DenseMatrix::from_array(3, 1, &v);
        let y = vec![1.0f64, 2.0, 4.0];
        let alpha: f64 = kani::any(); let tol: f64 = kani::any(); let mi: usize = kani::any(); let nz: bool = kani::any();
        kani::assume(alpha < 0.0 || tol <= 0.0 || mi == 0);
        let p = LassoParameters::default().with_alpha(alpha).with_tol(tol).with_max_iter(mi).with_normalize(nz);
        let r = Lasso::fit(&x, &y, p);
        assert!(r.is_err());
        std::mem::forget(r);
    }

    #[kani::proof]
    #[kani::unwind(5)]
    #[kani::stub(smartcore::linear::lasso_optimizer::InteriorPointOptimizer::optimize, trap_opt)]
    #[kani::stub(std::fmt::format, no_format)]
    fn lasso_const_col() {
        let c: f64 = kani::any();
        kani::assume(c.is_finite() && c.abs() < 1e6 && c.abs() > 1e-6);
        let x = DenseMatrix::from_array(3, 1, &[c, c, c]);
        let y = vec![1.0f64, 2.0, 4.0];
        let r = Lasso::fit(&x, &y, LassoParameters::default());
        assert!(r.is_err());
        std::mem::forget(r);
    }

    #[kani::proof]
    #[kani::unwind(5)]
    #[kani::stub(f64::exp, rec_exp)]
    fn softmax_args_1x2() {
        let a: [f64; 2] = kani::any();
        kani::assume(a[0].is_finite() && a[1].is_finite());
        let mut m = DenseMatrix::from_array(1, 2, &a);
        m.softmax_mut();
        unsafe {
            assert!(NLOG == 2);
            assert!(LOG[0] <= 0.0 && LOG[1] <= 0.0);
            assert!(LOG[0] == 0.0 || LOG[1] == 0.0);
        }
    }

    #[kani::proof]
    #[kani::unwind(5)]
    #[kani::stub(f64::powf, rec_powf)]
    fn minkowski_args_2d() {
        let (ai, a) = lat(-4, 4); let (bi, b) = lat(-4, 4); let (ci, c) = lat(-4, 4); let (di, d) = lat(-4, 4);
        let x = vec![a, b]; let y = vec![c, d];
        let r: f64 = Distances::minkowski(3).distance(&x, &y);
        unsafe {
            assert!(NLOG == 6);
            assert!(LOG[0] == (ai - ci).abs() as f64 && LOG[1] == 3.0);
            assert!(LOG[2] == (bi - di).abs() as f64 && LOG[3] == 3.0);
            assert!(LOG[4] == ((ai - ci).abs() + (bi - di).abs()) as f64); // surrogate sum of bases
            assert!(LOG[5] == 1.0 / 3.0);
        }
        let _ = r;
    }
}
