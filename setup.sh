#!/bin/bash
# Offline set-up of the verification framework: nothing is fetched; the harness crate is compiled by
# every check run itself (against /repo's current working tree).  This only checks the tool chain and
# places the lock file the harness crate resolves against.
set -e
cd "$(dirname "$0")"
export CARGO_NET_OFFLINE=true
cargo kani --version
cbmc --version
[ -f kani/Cargo.lock ] || cp /repo/Cargo.lock kani/Cargo.lock
mkdir -p evidence cex
( cd kani && cargo metadata --offline --format-version 1 >/dev/null )
echo "setup ok"
