// generated concrete-playback tests are spliced in here by vcheck --replay
