//! C05 — decision trees: one greedy split search from an arbitrary sample-weight state (the inductive step of tree
//! growth), node impurity and majority vote.  Whole fits are outside the claim (DESIGN 6/C05).
use crate::common::*;
use smartcore::tree::decision_tree_classifier::{DecisionTreeClassifierParameters, SplitCriterion};
use smartcore::tree::decision_tree_regressor::DecisionTreeRegressorParameters;
use smartcore::verif_hooks::{verif_best_split_classifier, verif_best_split_regressor, verif_impurity, verif_which_max};

// ---------------------------------------------------------------------------------------------
// regression: x on lattice 0..3 (repeated values allowed), y on lattice -2..2, sample weights 0..=WMAX,
// min_samples_leaf symbolic 1..2.  Candidate cuts are the half-integers t in {0.5, 1.5, 2.5} per feature.
// score(cut) = sl^2/wl + sr^2/wr, compared exactly by cross-multiplication.
// ---------------------------------------------------------------------------------------------
macro_rules! reg_split {
    ($name:ident, $n:expr, $p:expr, $wmax:expr, $unw:expr) => {
        reg_split!($name, $n, $p, 0, $wmax, $unw);
    };
    ($name:ident, $n:expr, $p:expr, $wmin:expr, $wmax:expr, $unw:expr) => {
        vp_proof_traps! {
            #[cfg_attr(kani, kani::unwind($unw))]
            fn $name() {
                const N: usize = $n;
                const P: usize = $p;
                let mut xi = [[0i32; P]; N];
                let mut xa = [0f32; N * P];
                let mut yi = [0i32; N];
                let mut y = vec![0f32; N];
                let mut w = [0usize; N];
                let mut wt = 0usize;
                for i in 0..N {
                    for j in 0..P {
                        let (a, b) = lat32(0, 3);
                        xi[i][j] = a;
                        xa[i * P + j] = b;
                    }
                    let (a, b) = lat32(-2, 2);
                    yi[i] = a;
                    y[i] = b;
                    w[i] = anyu($wmin, $wmax);
                    wt += w[i];
                }
                kani::assume(wt >= 1);
                let msl = anyu(1, 2);
                let x = DenseMatrix::from_array(N, P, &xa);
                let params = DecisionTreeRegressorParameters::default().with_min_samples_leaf(msl);
                let r = verif_best_split_regressor(&x, &y, w.to_vec(), params);
                // brute force over all cuts
                let mut any_admissible = false;
                // score of the chosen cut (num/den), filled below
                let (mut cn, mut cd) = (0i32, 1i32);
                let mut chosen_ok = false;
                if let Some((f, thr, tout, fout)) = r {
                    vp_assert!(f < P, "C05:regressor-split-feature-in-range");
                    let (mut wl, mut wr, mut sl, mut sr) = (0i32, 0i32, 0i32, 0i32);
                    let (mut amax, mut bmin) = (-1i32, 99i32);
                    for i in 0..N {
                        if w[i] > 0 {
                            if (xi[i][f] as f32) <= thr {
                                wl += w[i] as i32;
                                sl += (w[i] as i32) * yi[i] as i32;
                                if xi[i][f] > amax {
                                    amax = xi[i][f];
                                }
                            } else {
                                wr += w[i] as i32;
                                sr += (w[i] as i32) * yi[i] as i32;
                                if xi[i][f] < bmin {
                                    bmin = xi[i][f];
                                }
                            }
                        }
                    }
                    vp_assert!(wl >= 1 && wr >= 1, "C05:regressor-threshold-separates-present-rows");
                    vp_assert!(thr == (amax + bmin) as f32 / 2.0, "C05:regressor-threshold-is-midpoint-of-consecutive-values");
                    vp_assert!(wl >= msl as i32 && wr >= msl as i32, "C05:regressor-children-respect-min-samples-leaf");
                    // child outputs are the weighted means of exactly the rows on each side
                    vp_assert!((tout * wl as f32 - sl as f32).abs() <= 1e-4, "C05:regressor-true-child-output-is-mean");
                    vp_assert!((fout * wr as f32 - sr as f32).abs() <= 1e-4, "C05:regressor-false-child-output-is-mean");
                    cn = sl * sl * wr + sr * sr * wl;
                    cd = wl * wr;
                    chosen_ok = true;
                }
                for f in 0..P {
                    for t2 in 0..3 {
                        // cut at t = t2 + 0.5
                        let (mut wl, mut wr, mut sl, mut sr) = (0i32, 0i32, 0i32, 0i32);
                        for i in 0..N {
                            if w[i] > 0 {
                                if xi[i][f] <= t2 {
                                    wl += w[i] as i32;
                                    sl += (w[i] as i32) * yi[i] as i32;
                                } else {
                                    wr += w[i] as i32;
                                    sr += (w[i] as i32) * yi[i] as i32;
                                }
                            }
                        }
                        if wl >= msl as i32 && wr >= msl as i32 {
                            any_admissible = true;
                            if chosen_ok {
                                let on = sl * sl * wr + sr * sr * wl;
                                let od = wl * wr;
                                vp_assert!(cn * od >= on * cd, "C05:regressor-chosen-cut-has-maximal-squared-error-reduction");
                            }
                        }
                    }
                }
                vp_assert!(chosen_ok == any_admissible, "C05:regressor-split-found-iff-an-admissible-cut-exists");
                vp_reached!();
            }
        }
    };
}
// @vp name=c05_reg_split_n2_p1 prop=C05 tier=quick t=480 fns=DecisionTreeRegressor::find_best_split,quick_argsort_mut size=n=2,p=1 dom=x-lattice(0..3),y-lattice(-2..2),weights0..2,msl1..2,f32 stubs=traps,no_format
reg_split!(c05_reg_split_n2_p1, 2, 1, 2, 6);
// @vp name=c05_reg_split_n3_p1 prop=C05 tier=thorough mem=40 t=1500 fns=DecisionTreeRegressor::find_best_split,quick_argsort_mut size=n=3,p=1 dom=x-lattice(0..3),y-lattice(-2..2),weights0..2,msl1..2,f32 stubs=traps,no_format
reg_split!(c05_reg_split_n3_p1, 3, 1, 2, 7);
// @vp name=c05_reg_split_n3_p1_w01 prop=C05 tier=quick t=480 fns=DecisionTreeRegressor::find_best_split,quick_argsort_mut size=n=3,p=1 dom=x-lattice(0..3),y-lattice(-2..2),weights0..1,msl1..2,f32 stubs=traps,no_format
reg_split!(c05_reg_split_n3_p1_w01, 3, 1, 1, 7);
// every row present with weight 1..2 (total weight up to 6): the leaf-size guard is exercised with candidates on both sides
// @vp name=c05_reg_split_n3_p1_w12 prop=C05 tier=quick mem=24 t=480 fns=DecisionTreeRegressor::find_best_split,quick_argsort_mut size=n=3,p=1 dom=x-lattice(0..3),y-lattice(-2..2),weights1..2,msl1..2,f32 stubs=traps,no_format
reg_split!(c05_reg_split_n3_p1_w12, 3, 1, 1, 2, 7);
// the same split search on features rescaled by a power of two, x = k * 2^e with e in -60..20: thresholds and the chosen
// partition must not depend on the scale (equal values are equal at any scale, distinct ones stay distinct)
// @vp name=c05_reg_split_n2_scaled prop=C05 tier=quick t=480 fns=DecisionTreeRegressor::find_best_split,quick_argsort_mut size=n=2,p=1 dom=x=k*2^e,k0..3,e-60..20,y-lattice(-2..2),weights0..2,msl=1,f32 stubs=traps,no_format
vp_proof_traps! {
    #[cfg_attr(kani, kani::unwind(6))]
    fn c05_reg_split_n2_scaled() {
        let e: i8 = kani::any();
        kani::assume(e >= -60 && e <= 20);
        let scale = f32::from_bits(((127i32 + e as i32) as u32) << 23);
        let mut xi = [0i32; 2];
        let mut xa = [0f32; 2];
        let mut yi = [0i32; 2];
        let mut y = vec![0f32; 2];
        let mut w = [0usize; 2];
        for i in 0..2 {
            let (a, b) = lat32(0, 3);
            xi[i] = a;
            xa[i] = b * scale;
            let (a, b) = lat32(-2, 2);
            yi[i] = a;
            y[i] = b;
            w[i] = anyu(0, 2);
        }
        kani::assume(w[0] + w[1] >= 1);
        let x = DenseMatrix::from_array(2, 1, &xa);
        let r = verif_best_split_regressor(&x, &y, w.to_vec(), DecisionTreeRegressorParameters::default());
        let can_cut = w[0] > 0 && w[1] > 0 && xi[0] != xi[1];
        match r {
            Some((f, thr, tout, fout)) => {
                vp_assert!(can_cut && f == 0, "C05:regressor-split-found-iff-an-admissible-cut-exists");
                vp_assert!(thr == (xi[0] + xi[1]) as f32 * scale / 2.0, "C05:regressor-threshold-is-midpoint-at-any-scale");
                let (lo, hi) = if xi[0] < xi[1] { (0, 1) } else { (1, 0) };
                vp_assert!(tout == yi[lo] as f32 && fout == yi[hi] as f32, "C05:regressor-child-outputs-at-any-scale");
            }
            None => vp_assert!(!can_cut, "C05:regressor-split-found-iff-an-admissible-cut-exists"),
        }
        vp_reached!();
    }
}
// @vp name=c05_reg_split_n2_p2 prop=C05 tier=quick mem=24 t=480 fns=DecisionTreeRegressor::find_best_split,quick_argsort_mut size=n=2,p=2 dom=x-lattice(0..3),y-lattice(-2..2),weights0..2,msl1..2,f32 stubs=traps,no_format
reg_split!(c05_reg_split_n2_p2, 2, 2, 2, 6);
// @vp name=c05_reg_split_n3_p2 prop=C05 tier=thorough t=3600 fns=DecisionTreeRegressor::find_best_split,quick_argsort_mut size=n=3,p=2 dom=x-lattice(0..3),y-lattice(-2..2),weights0..2,msl1..2,f32 stubs=traps,no_format
reg_split!(c05_reg_split_n3_p2, 3, 2, 2, 7);
// @vp name=c05_reg_split_n4_p1 prop=C05 tier=thorough t=3600 fns=DecisionTreeRegressor::find_best_split,quick_argsort_mut size=n=4,p=1 dom=x-lattice(0..3),y-lattice(-2..2),weights0..1,msl1..2,f32 stubs=traps,no_format
reg_split!(c05_reg_split_n4_p1, 4, 1, 1, 8);

// ---------------------------------------------------------------------------------------------
// classification (2 classes), pairwise distinct feature values, min_samples_leaf = 1 (the property's precondition)
// Gini: maximise sum_l c_tl^2/tc + sum_l c_fl^2/fc ; ClassificationError: maximise max_l c_tl + max_l c_fl
// ---------------------------------------------------------------------------------------------
macro_rules! cls_split {
    ($name:ident, $n:expr, $wmax:expr, $crit:expr, $gini:expr, $unw:expr) => {
        vp_proof_traps! {
            #[cfg_attr(kani, kani::unwind($unw))]
            fn $name() {
                const N: usize = $n;
                let mut xi = [0i32; N];
                let mut xa = [0f32; N];
                let mut yl = [0usize; N];
                let mut w = [0usize; N];
                let mut wt = 0usize;
                for i in 0..N {
                    let (a, b) = lat32(0, 4);
                    xi[i] = a;
                    xa[i] = b;
                    yl[i] = if kani::any() { 1 } else { 0 };
                    w[i] = anyu(if $wmax == 1 { 1 } else { 0 }, $wmax);
                    wt += w[i];
                }
                for i in 0..N {
                    for j in 0..N {
                        if i < j {
                            kani::assume(xi[i] != xi[j]);
                        }
                    }
                }
                kani::assume(wt >= 1);
                let x = DenseMatrix::from_array(N, 1, &xa);
                let params = DecisionTreeClassifierParameters::default().with_criterion($crit).with_min_samples_leaf(1);
                let r = verif_best_split_classifier(&x, &yl, 2, w.to_vec(), params);
                let (mut cn, mut cd) = (0i32, 1i32);
                let mut chosen = false;
                if let Some((f, thr, tl, fl)) = r {
                    vp_assert!(f == 0 && tl < 2 && fl < 2, "C05:classifier-split-in-range");
                    let mut ct = [0i32; 2];
                    let mut cf = [0i32; 2];
                    let (mut amax, mut bmin) = (-1i32, 99i32);
                    for i in 0..N {
                        if w[i] > 0 {
                            if (xi[i] as f32) <= thr {
                                ct[yl[i]] += w[i] as i32;
                                if xi[i] > amax {
                                    amax = xi[i];
                                }
                            } else {
                                cf[yl[i]] += w[i] as i32;
                                if xi[i] < bmin {
                                    bmin = xi[i];
                                }
                            }
                        }
                    }
                    let (tc, fc) = (ct[0] + ct[1], cf[0] + cf[1]);
                    vp_assert!(tc >= 1 && fc >= 1, "C05:classifier-threshold-separates-present-rows");
                    vp_assert!(thr == (amax + bmin) as f32 / 2.0, "C05:classifier-threshold-is-midpoint-of-consecutive-values");
                    vp_assert!(ct[tl] >= ct[1 - tl] && cf[fl] >= cf[1 - fl], "C05:classifier-child-outputs-are-majority-classes");
                    if $gini {
                        cn = (ct[0] * ct[0] + ct[1] * ct[1]) * fc + (cf[0] * cf[0] + cf[1] * cf[1]) * tc;
                        cd = tc * fc;
                    } else {
                        cn = ct[0].max(ct[1]) + cf[0].max(cf[1]);
                        cd = 1;
                    }
                    chosen = true;
                }
                let mut any_cut = false;
                for t2 in 0..4 {
                    let mut ct = [0i32; 2];
                    let mut cf = [0i32; 2];
                    for i in 0..N {
                        if w[i] > 0 {
                            if xi[i] <= t2 {
                                ct[yl[i]] += w[i] as i32;
                            } else {
                                cf[yl[i]] += w[i] as i32;
                            }
                        }
                    }
                    let (tc, fc) = (ct[0] + ct[1], cf[0] + cf[1]);
                    if tc >= 1 && fc >= 1 {
                        any_cut = true;
                        if chosen {
                            let (on, od) = if $gini {
                                ((ct[0] * ct[0] + ct[1] * ct[1]) * fc + (cf[0] * cf[0] + cf[1] * cf[1]) * tc, tc * fc)
                            } else {
                                (ct[0].max(ct[1]) + cf[0].max(cf[1]), 1)
                            };
                            vp_assert!(cn * od >= on * cd, "C05:classifier-chosen-cut-has-maximal-impurity-decrease");
                        }
                    }
                }
                // a node that can be cut and is not pure must be split (the hook runs the search unconditionally)
                let mut c0 = 0;
                let mut c1 = 0;
                for i in 0..N {
                    if yl[i] == 0 {
                        c0 += w[i];
                    } else {
                        c1 += w[i];
                    }
                }
                if any_cut && c0 > 0 && c1 > 0 {
                    vp_assert!(chosen, "C05:classifier-impure-node-with-a-cut-is-split");
                }
                if !any_cut {
                    vp_assert!(!chosen, "C05:classifier-no-split-without-a-cut");
                }
                vp_reached!();
            }
        }
    };
}
// @vp name=c05_cls_split_gini_n3 prop=C05 tier=quick mem=24 t=480 fns=DecisionTreeClassifier::find_best_split,impurity,which_max,quick_argsort_mut size=n=3,p=1,2-classes dom=x-distinct-lattice(0..4),labels-symbolic,unit-weights,Gini,f32 stubs=traps,no_format
cls_split!(c05_cls_split_gini_n3, 3, 1, SplitCriterion::Gini, true, 7);
// @vp name=c05_cls_split_cerr_n3 prop=C05 tier=quick mem=24 t=480 fns=DecisionTreeClassifier::find_best_split,impurity,which_max,quick_argsort_mut size=n=3,p=1,2-classes dom=x-distinct-lattice(0..4),labels-symbolic,unit-weights,ClassificationError,f32 stubs=traps,no_format
cls_split!(c05_cls_split_cerr_n3, 3, 1, SplitCriterion::ClassificationError, false, 7);
// @vp name=c05_cls_split_gini_n3_weighted prop=C05 tier=thorough t=3600 fns=DecisionTreeClassifier::find_best_split,impurity,which_max,quick_argsort_mut size=n=3,p=1,2-classes dom=x-distinct-lattice(0..4),labels-symbolic,weights0..2,Gini,f32 stubs=traps,no_format
cls_split!(c05_cls_split_gini_n3_weighted, 3, 2, SplitCriterion::Gini, true, 7);
// @vp name=c05_cls_split_gini_n4 prop=C05 tier=thorough t=3600 fns=DecisionTreeClassifier::find_best_split,impurity,which_max,quick_argsort_mut size=n=4,p=1,2-classes dom=x-distinct-lattice(0..4),labels-symbolic,unit-weights,Gini,f32 stubs=traps,no_format
cls_split!(c05_cls_split_gini_n4, 4, 1, SplitCriterion::Gini, true, 8);

// impurity on class counts (c0, c1, c2), total <= 6: closed forms, zero iff pure
// @vp name=c05_impurity_counts prop=C05 tier=quick t=480 fns=impurity size=3-classes,n<=6 dom=counts-symbolic,Gini+ClassificationError,f64
vp_proof! {
    #[cfg_attr(kani, kani::unwind(6))]
    fn c05_impurity_counts() {
        let c = [anyu(0, 3), anyu(0, 3), anyu(0, 3)];
        let n = c[0] + c[1] + c[2];
        kani::assume(n >= 1 && n <= 6);
        let g: f64 = verif_impurity(&SplitCriterion::Gini, &c, n);
        let e: f64 = verif_impurity(&SplitCriterion::ClassificationError, &c, n);
        // Gini = 1 - sum c_i^2 / n^2 ; error = 1 - max c_i / n
        let s2 = (c[0] * c[0] + c[1] * c[1] + c[2] * c[2]) as f64;
        let mx = c[0].max(c[1]).max(c[2]) as f64;
        let nn = (n * n) as f64;
        vp_assert!((g * nn - (nn - s2)).abs() <= 1e-9, "C05:gini-closed-form");
        vp_assert!((e * n as f64 - (n as f64 - mx)).abs() <= 1e-9, "C05:classification-error-closed-form");
        let pure = c[0] == n || c[1] == n || c[2] == n;
        vp_assert!((g.abs() <= 1e-12) == pure, "C05:gini-zero-iff-pure");
        vp_assert!((e.abs() <= 1e-12) == pure, "C05:classification-error-zero-iff-pure");
        vp_reached!();
    }
}

// @vp name=c05_which_max prop=C05 tier=quick t=300 fns=which_max size=len=3 dom=any-u8-counts
vp_proof! {
    #[cfg_attr(kani, kani::unwind(6))]
    fn c05_which_max() {
        let c8: [u8; 3] = kani::any();
        let c = [c8[0] as usize, c8[1] as usize, c8[2] as usize];
        let m = verif_which_max(&c);
        vp_assert!(m < 3, "C05:which_max-in-range");
        for i in 0..3 {
            vp_assert!(c[m] >= c[i], "C05:which_max-is-a-maximum");
            if i < m {
                vp_assert!(c[i] < c[m], "C05:which_max-is-the-first-maximum");
            }
        }
        vp_reached!();
    }
}

// NOTE: one whole growth step (find_best_cutoff + split through the hooks verif_split_step_regressor / _classifier: routing of the
// parent's samples to the two children, children one level below the parent, depth bookkeeping, undo of a split that violates
// min_samples_leaf) was built and run for n = 2 (regressor) and n = 3, 4 (classifier): every instance exceeded 45 GB - split()
// searches both children again and queues visitors in a LinkedList.  The hooks stay in /repo (add-only, unused); routing and depth
// bookkeeping remain outside the claim, which is why the seeded change C05-2 is missed.  A later attempt with fully CONCRETE data
// (n = 8, both children impure) and only the node's level symbolic (any u16) did not finish either: 480 s per harness, no verdict.
