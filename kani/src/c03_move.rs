//! C03 (part 1) — structural operations of DenseMatrix / Vec: data movement on arbitrary bit patterns,
//! compared with the logical (row, col) view of the row-major input array.
use crate::common::*;

fn lv<const N: usize>(a: &[f64; N], ncols: usize, r: usize, c: usize) -> f64 {
    a[r * ncols + c]
}

/// construction from row-major data and element / row / column access
fn ctor_access<const R: usize, const C: usize, const N: usize>() {
    let a: [f64; N] = kani::any();
    let m = DenseMatrix::from_array(R, C, &a);
    vp_assert!(m.shape() == (R, C), "C03:from_array-shape");
    for r in 0..R {
        for c in 0..C {
            vp_assert!(same64(m.get(r, c), lv(&a, C, r, c)), "C03:from_array-get");
        }
    }
    // row-major iteration
    let mut k = 0;
    for v in m.iter() {
        vp_assert!(k < N && same64(v, a[k]), "C03:iter-row-major");
        k += 1;
    }
    vp_assert!(k == N, "C03:iter-length");
    // rows
    for r in 0..R {
        let g = m.get_row(r);
        let gv = m.get_row_as_vec(r);
        let mut buf = vec![0f64; C];
        m.copy_row_as_vec(r, &mut buf);
        vp_assert!(g.len() == C && gv.len() == C, "C03:get_row-length");
        for c in 0..C {
            vp_assert!(same64(g[c], lv(&a, C, r, c)), "C03:get_row");
            vp_assert!(same64(gv[c], lv(&a, C, r, c)), "C03:get_row_as_vec");
            vp_assert!(same64(buf[c], lv(&a, C, r, c)), "C03:copy_row_as_vec");
        }
    }
    // columns
    for c in 0..C {
        let gv = m.get_col_as_vec(c);
        let mut buf = vec![0f64; R];
        m.copy_col_as_vec(c, &mut buf);
        vp_assert!(gv.len() == R, "C03:get_col-length");
        for r in 0..R {
            vp_assert!(same64(gv[r], lv(&a, C, r, c)), "C03:get_col_as_vec");
            vp_assert!(same64(buf[r], lv(&a, C, r, c)), "C03:copy_col_as_vec");
        }
    }
    vp_reached!();
}

/// the other constructors: from_vec, from_2d_array, from_2d_vec (row-major input), new (column-major storage)
// @vp name=c03_ctor_variants_2x3 prop=C03 tier=quick t=480 fns=DenseMatrix::from_vec,from_2d_array,from_2d_vec,new size=2x3 dom=any-f64-bits
#[cfg_attr(kani, kani::proof)]
#[cfg_attr(kani, kani::unwind(9))]
pub fn c03_ctor_variants_2x3() {
    let a: [f64; 6] = kani::any();
    let m2 = DenseMatrix::from_vec(2, 3, &a[..]);
    let m3 = DenseMatrix::from_2d_array(&[&[a[0], a[1], a[2]], &[a[3], a[4], a[5]]]);
    let m4 = DenseMatrix::new(2, 3, vec![a[0], a[3], a[1], a[4], a[2], a[5]]);
    vp_assert!(m2.shape() == (2, 3) && m3.shape() == (2, 3) && m4.shape() == (2, 3), "C03:ctor-shape");
    for r in 0..2 {
        for c in 0..3 {
            vp_assert!(same64(m2.get(r, c), a[r * 3 + c]), "C03:from_vec-get");
            vp_assert!(same64(m3.get(r, c), a[r * 3 + c]), "C03:from_2d_array-get");
            vp_assert!(same64(m4.get(r, c), a[r * 3 + c]), "C03:new-column-major");
        }
    }
    vp_reached!();
}

/// transpose, flattening, reshape to every compatible shape, row/column vector constructors
fn reshape_transpose<const R: usize, const C: usize, const N: usize>() {
    let a: [f64; N] = kani::any();
    let m = DenseMatrix::from_array(R, C, &a);
    let t = m.transpose();
    vp_assert!(t.shape() == (C, R), "C03:transpose-shape");
    for r in 0..R {
        for c in 0..C {
            vp_assert!(same64(t.get(c, r), lv(&a, C, r, c)), "C03:transpose");
        }
    }
    let flat = m.clone().to_row_vector();
    vp_assert!(flat.len() == N, "C03:to_row_vector-length");
    for k in 0..N {
        vp_assert!(same64(flat[k], a[k]), "C03:to_row_vector-row-major");
    }
    // flattening the transpose gives column-major order of the original
    let tflat = t.to_row_vector();
    for c in 0..C {
        for r in 0..R {
            vp_assert!(same64(tflat[c * R + r], lv(&a, C, r, c)), "C03:to_row_vector-of-transpose");
        }
    }
    for nr in 1..=N {
        if N % nr == 0 {
            let nc = N / nr;
            let rs = m.reshape(nr, nc);
            vp_assert!(rs.shape() == (nr, nc), "C03:reshape-shape");
            for i in 0..nr {
                for j in 0..nc {
                    vp_assert!(same64(rs.get(i, j), a[i * nc + j]), "C03:reshape-row-major");
                }
            }
        }
    }
    let rv = DenseMatrix::from_row_vector(a.to_vec());
    let rv2 = DenseMatrix::row_vector_from_array(&a);
    let cv = DenseMatrix::column_vector_from_array(&a);
    vp_assert!(rv.shape() == (1, N) && rv2.shape() == (1, N) && cv.shape() == (N, 1), "C03:vector-ctor-shape");
    for k in 0..N {
        vp_assert!(same64(rv.get(0, k), a[k]), "C03:from_row_vector");
        vp_assert!(same64(rv2.get(0, k), a[k]), "C03:row_vector_from_array");
        vp_assert!(same64(cv.get(k, 0), a[k]), "C03:column_vector_from_array");
    }
    vp_reached!();
}

/// slice over every sub-range, take along both axes with every index pair (repeats allowed)
fn slice_take<const R: usize, const C: usize, const N: usize>() {
    let a: [f64; N] = kani::any();
    let m = DenseMatrix::from_array(R, C, &a);
    for r0 in 0..R {
        for r1 in (r0 + 1)..=R {
            for c0 in 0..C {
                for c1 in (c0 + 1)..=C {
                    let s = m.slice(r0..r1, c0..c1);
                    vp_assert!(s.shape() == (r1 - r0, c1 - c0), "C03:slice-shape");
                    for r in r0..r1 {
                        for c in c0..c1 {
                            vp_assert!(same64(s.get(r - r0, c - c0), lv(&a, C, r, c)), "C03:slice");
                        }
                    }
                }
            }
        }
    }
    for i in 0..R {
        for j in 0..R {
            let t = m.take(&[i, j], 0);
            vp_assert!(t.shape() == (2, C), "C03:take-rows-shape");
            for c in 0..C {
                vp_assert!(same64(t.get(0, c), lv(&a, C, i, c)) && same64(t.get(1, c), lv(&a, C, j, c)), "C03:take-rows");
            }
        }
    }
    for i in 0..C {
        for j in 0..C {
            let t = m.take(&[i, j], 1);
            vp_assert!(t.shape() == (R, 2), "C03:take-cols-shape");
            for r in 0..R {
                vp_assert!(same64(t.get(r, 0), lv(&a, C, r, i)) && same64(t.get(r, 1), lv(&a, C, r, j)), "C03:take-cols");
            }
        }
    }
    vp_reached!();
}

/// h_stack / v_stack with a second operand, copy_from
fn stack_copy<const R: usize, const C: usize, const N: usize>() {
    let a: [f64; N] = kani::any();
    let b: [f64; N] = kani::any();
    let e: [f64; C] = kani::any(); // 1 x C extra row
    let f: [f64; R] = kani::any(); // R x 1 extra column
    let m = DenseMatrix::from_array(R, C, &a);
    let m2 = DenseMatrix::from_array(R, C, &b);
    let er = DenseMatrix::from_array(1, C, &e);
    let fc = DenseMatrix::from_array(R, 1, &f);
    let v = m.v_stack(&er);
    vp_assert!(v.shape() == (R + 1, C), "C03:v_stack-shape");
    for c in 0..C {
        for r in 0..R {
            vp_assert!(same64(v.get(r, c), lv(&a, C, r, c)), "C03:v_stack-top");
        }
        vp_assert!(same64(v.get(R, c), e[c]), "C03:v_stack-bottom");
    }
    let h = m.h_stack(&fc);
    vp_assert!(h.shape() == (R, C + 1), "C03:h_stack-shape");
    for r in 0..R {
        for c in 0..C {
            vp_assert!(same64(h.get(r, c), lv(&a, C, r, c)), "C03:h_stack-left");
        }
        vp_assert!(same64(h.get(r, C), f[r]), "C03:h_stack-right");
    }
    let vv = m.v_stack(&m2);
    let hh = m.h_stack(&m2);
    vp_assert!(vv.shape() == (2 * R, C) && hh.shape() == (R, 2 * C), "C03:stack-shape");
    for r in 0..R {
        for c in 0..C {
            vp_assert!(same64(vv.get(R + r, c), lv(&b, C, r, c)), "C03:v_stack-second");
            vp_assert!(same64(hh.get(r, C + c), lv(&b, C, r, c)), "C03:h_stack-second");
        }
    }
    let mut d = m.clone();
    d.copy_from(&m2);
    for r in 0..R {
        for c in 0..C {
            vp_assert!(same64(d.get(r, c), lv(&b, C, r, c)), "C03:copy_from");
        }
    }
    vp_reached!();
}

/// set (every cell; all others untouched), fill / zeros / ones / eye
fn set_fill<const R: usize, const C: usize, const N: usize>() {
    let a: [f64; N] = kani::any();
    let x: f64 = kani::any();
    for r0 in 0..R {
        for c0 in 0..C {
            let mut m = DenseMatrix::from_array(R, C, &a);
            m.set(r0, c0, x);
            for r in 0..R {
                for c in 0..C {
                    let want = if r == r0 && c == c0 { x } else { lv(&a, C, r, c) };
                    vp_assert!(same64(m.get(r, c), want), "C03:set-then-get");
                }
            }
        }
    }
    let fl = DenseMatrix::fill(R, C, x);
    let z: DenseMatrix<f64> = DenseMatrix::zeros(R, C);
    let o: DenseMatrix<f64> = DenseMatrix::ones(R, C);
    vp_assert!(fl.shape() == (R, C) && z.shape() == (R, C) && o.shape() == (R, C), "C03:fill-shape");
    for r in 0..R {
        for c in 0..C {
            vp_assert!(same64(fl.get(r, c), x), "C03:fill");
            vp_assert!(same64(z.get(r, c), 0.0), "C03:zeros");
            vp_assert!(same64(o.get(r, c), 1.0), "C03:ones");
        }
    }
    let e: DenseMatrix<f64> = DenseMatrix::eye(R);
    vp_assert!(e.shape() == (R, R), "C03:eye-shape");
    for r in 0..R {
        for c in 0..R {
            vp_assert!(same64(e.get(r, c), if r == c { 1.0 } else { 0.0 }), "C03:eye");
        }
    }
    vp_reached!();
}

macro_rules! mv {
    ($name:ident, $f:ident, $r:expr, $c:expr, $unw:expr) => {
        #[cfg_attr(kani, kani::proof)]
        #[cfg_attr(kani, kani::unwind($unw))]
        pub fn $name() {
            $f::<$r, $c, { $r * $c }>();
        }
    };
}

// @vp name=c03_ctor_1x1 prop=C03 tier=quick t=300 fns=DenseMatrix::from_array,get,shape,iter,get_row,get_row_as_vec,copy_row_as_vec,get_col_as_vec,copy_col_as_vec size=1x1 dom=any-f64-bits
mv!(c03_ctor_1x1, ctor_access, 1, 1, 5);
// @vp name=c03_ctor_1x3 prop=C03 tier=quick t=300 fns=DenseMatrix::from_array,get,shape,iter,get_row,get_row_as_vec,copy_row_as_vec,get_col_as_vec,copy_col_as_vec size=1x3 dom=any-f64-bits
mv!(c03_ctor_1x3, ctor_access, 1, 3, 6);
// @vp name=c03_ctor_3x1 prop=C03 tier=quick t=300 fns=DenseMatrix::from_array,get,shape,iter,get_row,get_row_as_vec,copy_row_as_vec,get_col_as_vec,copy_col_as_vec size=3x1 dom=any-f64-bits
mv!(c03_ctor_3x1, ctor_access, 3, 1, 6);
// @vp name=c03_ctor_2x3 prop=C03 tier=quick t=400 fns=DenseMatrix::from_array,get,shape,iter,get_row,get_row_as_vec,copy_row_as_vec,get_col_as_vec,copy_col_as_vec size=2x3 dom=any-f64-bits
mv!(c03_ctor_2x3, ctor_access, 2, 3, 9);
// @vp name=c03_ctor_3x2 prop=C03 tier=quick t=400 fns=DenseMatrix::from_array,get,shape,iter,get_row,get_row_as_vec,copy_row_as_vec,get_col_as_vec,copy_col_as_vec size=3x2 dom=any-f64-bits
mv!(c03_ctor_3x2, ctor_access, 3, 2, 9);
// @vp name=c03_ctor_3x4 prop=C03 tier=thorough t=1800 fns=DenseMatrix::from_array,get,shape,iter,get_row,get_row_as_vec,copy_row_as_vec,get_col_as_vec,copy_col_as_vec size=3x4 dom=any-f64-bits
mv!(c03_ctor_3x4, ctor_access, 3, 4, 15);
// @vp name=c03_ctor_4x2 prop=C03 tier=thorough t=1800 fns=DenseMatrix::from_array,get,shape,iter,get_row,get_row_as_vec,copy_row_as_vec,get_col_as_vec,copy_col_as_vec size=4x2 dom=any-f64-bits
mv!(c03_ctor_4x2, ctor_access, 4, 2, 11);

// @vp name=c03_reshape_1x3 prop=C03 tier=quick t=300 fns=DenseMatrix::transpose,to_row_vector,reshape,from_row_vector,row_vector_from_array,column_vector_from_array size=1x3 dom=any-f64-bits
mv!(c03_reshape_1x3, reshape_transpose, 1, 3, 6);
// @vp name=c03_reshape_2x2 prop=C03 tier=quick t=300 fns=DenseMatrix::transpose,to_row_vector,reshape,from_row_vector,row_vector_from_array,column_vector_from_array size=2x2 dom=any-f64-bits
mv!(c03_reshape_2x2, reshape_transpose, 2, 2, 7);
// @vp name=c03_reshape_2x3 prop=C03 tier=quick t=400 fns=DenseMatrix::transpose,to_row_vector,reshape,from_row_vector,row_vector_from_array,column_vector_from_array size=2x3 dom=any-f64-bits
mv!(c03_reshape_2x3, reshape_transpose, 2, 3, 9);
// @vp name=c03_reshape_3x2 prop=C03 tier=quick t=400 fns=DenseMatrix::transpose,to_row_vector,reshape,from_row_vector,row_vector_from_array,column_vector_from_array size=3x2 dom=any-f64-bits
mv!(c03_reshape_3x2, reshape_transpose, 3, 2, 9);
// @vp name=c03_reshape_2x4 prop=C03 tier=thorough t=1800 fns=DenseMatrix::transpose,to_row_vector,reshape,from_row_vector,row_vector_from_array,column_vector_from_array size=2x4 dom=any-f64-bits
mv!(c03_reshape_2x4, reshape_transpose, 2, 4, 11);
// @vp name=c03_reshape_3x4 prop=C03 tier=thorough t=2400 fns=DenseMatrix::transpose,to_row_vector,reshape,from_row_vector,row_vector_from_array,column_vector_from_array size=3x4 dom=any-f64-bits
mv!(c03_reshape_3x4, reshape_transpose, 3, 4, 15);

// @vp name=c03_slice_take_2x2 prop=C03 tier=quick t=300 fns=DenseMatrix::slice,BaseMatrix::take size=2x2 dom=any-f64-bits,all-ranges,all-index-pairs
mv!(c03_slice_take_2x2, slice_take, 2, 2, 7);
// @vp name=c03_slice_take_2x3 prop=C03 tier=quick t=400 fns=DenseMatrix::slice,BaseMatrix::take size=2x3 dom=any-f64-bits,all-ranges,all-index-pairs
mv!(c03_slice_take_2x3, slice_take, 2, 3, 9);
// @vp name=c03_slice_take_3x2 prop=C03 tier=quick t=400 fns=DenseMatrix::slice,BaseMatrix::take size=3x2 dom=any-f64-bits,all-ranges,all-index-pairs
mv!(c03_slice_take_3x2, slice_take, 3, 2, 9);
// @vp name=c03_slice_take_3x3 prop=C03 tier=thorough t=2400 fns=DenseMatrix::slice,BaseMatrix::take size=3x3 dom=any-f64-bits,all-ranges,all-index-pairs
mv!(c03_slice_take_3x3, slice_take, 3, 3, 12);

// @vp name=c03_stack_1x3 prop=C03 tier=quick t=300 fns=DenseMatrix::h_stack,v_stack,copy_from size=1x3 dom=any-f64-bits
mv!(c03_stack_1x3, stack_copy, 1, 3, 9);
// @vp name=c03_stack_2x3 prop=C03 tier=quick t=400 fns=DenseMatrix::h_stack,v_stack,copy_from size=2x3 dom=any-f64-bits
mv!(c03_stack_2x3, stack_copy, 2, 3, 15);
// @vp name=c03_stack_3x2 prop=C03 tier=quick t=400 fns=DenseMatrix::h_stack,v_stack,copy_from size=3x2 dom=any-f64-bits
mv!(c03_stack_3x2, stack_copy, 3, 2, 15);
// @vp name=c03_stack_3x3 prop=C03 tier=thorough t=1800 fns=DenseMatrix::h_stack,v_stack,copy_from size=3x3 dom=any-f64-bits
mv!(c03_stack_3x3, stack_copy, 3, 3, 21);

// @vp name=c03_set_fill_2x3 prop=C03 tier=quick t=400 fns=DenseMatrix::set,fill,zeros,ones,eye size=2x3 dom=any-f64-bits
mv!(c03_set_fill_2x3, set_fill, 2, 3, 9);
// @vp name=c03_set_fill_3x2 prop=C03 tier=quick t=400 fns=DenseMatrix::set,fill,zeros,ones,eye size=3x2 dom=any-f64-bits
mv!(c03_set_fill_3x2, set_fill, 3, 2, 11);
// @vp name=c03_set_fill_3x3 prop=C03 tier=thorough t=1800 fns=DenseMatrix::set,fill,zeros,ones,eye size=3x3 dom=any-f64-bits
mv!(c03_set_fill_3x3, set_fill, 3, 3, 12);

// Vec as BaseVector: take, copy_from, constructors, to_vec
// @vp name=c03_vec_move_n3 prop=C03 tier=quick t=300 fns=Vec::take,copy_from,from_array,to_vec,zeros,ones,fill,get,set size=n=3 dom=any-f64-bits,all-index-pairs
#[cfg_attr(kani, kani::proof)]
#[cfg_attr(kani, kani::unwind(6))]
pub fn c03_vec_move_n3() {
    let a: [f64; 3] = kani::any();
    let b: [f64; 3] = kani::any();
    let v: Vec<f64> = BaseVector::from_array(&a);
    vp_assert!(BaseVector::len(&v) == 3, "C03:vec-from_array-length");
    for i in 0..3 {
        vp_assert!(same64(BaseVector::get(&v, i), a[i]), "C03:vec-from_array");
    }
    for i in 0..3 {
        for j in 0..3 {
            let t = BaseVector::take(&v, &[i, j]);
            vp_assert!(t.len() == 2 && same64(t[0], a[i]) && same64(t[1], a[j]), "C03:vec-take");
        }
    }
    let mut w = v.clone();
    BaseVector::copy_from(&mut w, &b.to_vec());
    let tv = BaseVector::to_vec(&w);
    for i in 0..3 {
        vp_assert!(same64(w[i], b[i]) && same64(tv[i], b[i]), "C03:vec-copy_from");
    }
    let x: f64 = kani::any();
    let z: Vec<f64> = BaseVector::zeros(3);
    let o: Vec<f64> = BaseVector::ones(3);
    let f: Vec<f64> = BaseVector::fill(3, x);
    for i in 0..3 {
        vp_assert!(same64(z[i], 0.0) && same64(o[i], 1.0) && same64(f[i], x), "C03:vec-fill");
    }
    let mut s = v.clone();
    BaseVector::set(&mut s, 1, x);
    vp_assert!(same64(s[0], a[0]) && same64(s[1], x) && same64(s[2], a[2]), "C03:vec-set");
    vp_reached!();
}
