//! C18 — one-hot encoding: column placement arithmetic, indicator construction, category validity.
use crate::common::*;
use smartcore::preprocessing::series_encoder::make_one_hot;
use smartcore::verif_hooks::{verif_find_new_idxs, Categorizable};

/// p columns, c categorical columns at symbolic strictly increasing positions, symbolic sizes 1..=3:
/// new[col] = col + sum over categorical columns j placed before col of (k_j - 1).
macro_rules! fni {
    ($name:ident, $p:expr, $c:expr, $unw:expr) => {
        vp_proof! {
            #[cfg_attr(kani, kani::unwind($unw))]
            fn $name() {
                let mut idx = [0usize; $c];
                let mut sz = [0usize; $c];
                for j in 0..$c {
                    idx[j] = anyu(0, $p - 1);
                    sz[j] = anyu(1, 3);
                    if j > 0 {
                        kani::assume(idx[j] > idx[j - 1]);
                    }
                }
                let r = verif_find_new_idxs($p, &sz[..], &idx[..]);
                vp_assert!(r.len() == $p, "C18:new-idxs-length");
                for col in 0..$p {
                    let mut want = col;
                    for j in 0..$c {
                        if idx[j] < col {
                            want += sz[j] - 1;
                        }
                    }
                    vp_assert!(r[col] == want, "C18:new-idxs-placement");
                }
                vp_reached!();
            }
        }
    };
}
// @vp name=c18_fni_p1_c0 prop=C18 tier=quick t=300 fns=find_new_idxs size=p=1,c=0 dom=positions+sizes(1..3)symbolic
fni!(c18_fni_p1_c0, 1, 0, 4);
// @vp name=c18_fni_p1_c1 prop=C18 tier=quick t=300 fns=find_new_idxs size=p=1,c=1 dom=positions+sizes(1..3)symbolic
fni!(c18_fni_p1_c1, 1, 1, 4);
// @vp name=c18_fni_p2_c1 prop=C18 tier=quick t=300 fns=find_new_idxs size=p=2,c=1 dom=positions+sizes(1..3)symbolic
fni!(c18_fni_p2_c1, 2, 1, 5);
// @vp name=c18_fni_p2_c2 prop=C18 tier=quick t=300 fns=find_new_idxs size=p=2,c=2 dom=positions+sizes(1..3)symbolic
fni!(c18_fni_p2_c2, 2, 2, 5);
// @vp name=c18_fni_p3_c0 prop=C18 tier=quick t=300 fns=find_new_idxs size=p=3,c=0 dom=positions+sizes(1..3)symbolic
fni!(c18_fni_p3_c0, 3, 0, 6);
// @vp name=c18_fni_p3_c1 prop=C18 tier=quick t=600 fns=find_new_idxs size=p=3,c=1 dom=positions+sizes(1..3)symbolic
fni!(c18_fni_p3_c1, 3, 1, 6);
// @vp name=c18_fni_p3_c2 prop=C18 tier=quick t=600 fns=find_new_idxs size=p=3,c=2 dom=positions+sizes(1..3)symbolic
fni!(c18_fni_p3_c2, 3, 2, 6);
// @vp name=c18_fni_p3_c3 prop=C18 tier=quick t=600 fns=find_new_idxs size=p=3,c=3 dom=positions+sizes(1..3)symbolic
fni!(c18_fni_p3_c3, 3, 3, 6);
// @vp name=c18_fni_p4_c1 prop=C18 tier=quick t=900 fns=find_new_idxs size=p=4,c=1 dom=positions+sizes(1..3)symbolic
fni!(c18_fni_p4_c1, 4, 1, 7);
// @vp name=c18_fni_p4_c2 prop=C18 tier=quick t=900 fns=find_new_idxs size=p=4,c=2 dom=positions+sizes(1..3)symbolic
fni!(c18_fni_p4_c2, 4, 2, 7);
// @vp name=c18_fni_p4_c3 prop=C18 tier=quick t=900 fns=find_new_idxs size=p=4,c=3 dom=positions+sizes(1..3)symbolic
fni!(c18_fni_p4_c3, 4, 3, 7);
// @vp name=c18_fni_p5_c2 prop=C18 tier=thorough t=1800 fns=find_new_idxs size=p=5,c=2 dom=positions+sizes(1..3)symbolic
fni!(c18_fni_p5_c2, 5, 2, 8);
// @vp name=c18_fni_p5_c3 prop=C18 tier=thorough t=1800 fns=find_new_idxs size=p=5,c=3 dom=positions+sizes(1..3)symbolic
fni!(c18_fni_p5_c3, 5, 3, 8);
// @vp name=c18_fni_p6_c3 prop=C18 tier=thorough t=2700 fns=find_new_idxs size=p=6,c=3 dom=positions+sizes(1..3)symbolic
fni!(c18_fni_p6_c3, 6, 3, 9);
// @vp name=c18_fni_p6_c4 prop=C18 tier=thorough t=2700 fns=find_new_idxs size=p=6,c=4 dom=positions+sizes(1..3)symbolic
fni!(c18_fni_p6_c4, 6, 4, 9);

macro_rules! one_hot {
    ($name:ident, $k:expr) => {
        vp_proof! {
            #[cfg_attr(kani, kani::unwind(7))]
            fn $name() {
                let idx = anyu(0, $k - 1);
                let v: Vec<f64> = make_one_hot::<f64, Vec<f64>>(idx, $k);
                vp_assert!(v.len() == $k, "C18:one-hot-length");
                for t in 0..$k {
                    vp_assert!(v[t] == if t == idx { 1.0 } else { 0.0 }, "C18:one-hot-indicator");
                }
                vp_reached!();
            }
        }
    };
}
// @vp name=c18_one_hot_k1 prop=C18 tier=quick t=300 fns=make_one_hot size=k=1 dom=idx-symbolic
one_hot!(c18_one_hot_k1, 1);
// @vp name=c18_one_hot_k3 prop=C18 tier=quick t=300 fns=make_one_hot size=k=3 dom=idx-symbolic
one_hot!(c18_one_hot_k3, 3);
// @vp name=c18_one_hot_k4 prop=C18 tier=quick t=300 fns=make_one_hot size=k=4 dom=idx-symbolic
one_hot!(c18_one_hot_k4, 4);

// @vp name=c18_one_hot_oob_panics prop=C18 tier=quick t=300 fns=make_one_hot size=k=3 dom=idx>=k expect=panic
#[cfg_attr(kani, kani::proof)]
#[cfg_attr(kani, kani::unwind(7))]
pub fn c18_one_hot_oob_panics() {
    let idx = anyu(3, 9);
    vp_reached!();
    let _v: Vec<f64> = make_one_hot::<f64, Vec<f64>>(idx, 3);
    vp_fail!("C18:one-hot-index-out-of-range-not-rejected");
}

// category validity: a value is accepted as a category code iff it is within 0.001 of an integer in 0..=65535
// @vp name=c18_is_valid_f64 prop=C18 tier=quick t=600 fns=Categorizable::is_valid,Categorizable::to_category size=scalar dom=any-f64
vp_proof! {
    fn c18_is_valid_f64() {
        let x: f64 = kani::any();
        let k: u16 = kani::any();
        let kf = k as f64;
        if x == kf {
            vp_assert!(x.is_valid(), "C18:integer-code-valid");
            vp_assert!(x.to_category() == k, "C18:integer-code-category");
        }
        // clearly non-integer values inside the range are rejected
        if x > kf + 0.002 && x < kf + 0.998 {
            vp_assert!(!x.is_valid(), "C18:non-integer-rejected");
        }
        if x.is_nan() || x < -0.002 || x > 65535.002 {
            vp_assert!(!x.is_valid(), "C18:out-of-range-rejected");
        }
        vp_reached!();
    }
}
// @vp name=c18_is_valid_f32 prop=C18 tier=quick t=600 fns=Categorizable::is_valid,Categorizable::to_category size=scalar dom=any-f32
vp_proof! {
    fn c18_is_valid_f32() {
        let x: f32 = kani::any();
        let k: u16 = kani::any();
        let kf = k as f32;
        if x == kf {
            vp_assert!(x.is_valid(), "C18:integer-code-valid");
            vp_assert!(x.to_category() == k, "C18:integer-code-category");
        }
        if k < 4096 && x > kf + 0.002 && x < kf + 0.998 {
            vp_assert!(!x.is_valid(), "C18:non-integer-rejected");
        }
        if x.is_nan() || x < -0.002 || x > 65536.0 {
            vp_assert!(!x.is_valid(), "C18:out-of-range-rejected");
        }
        vp_reached!();
    }
}

// NOTE: OneHotEncoder::{fit, transform} end to end was tried once more during the build with everything that feeds the hash
// table made concrete (concrete category codes, RandomState stubbed by fixed keys; only the plain column and the order of the
// categorical indices symbolic): symbolic execution of hashbrown + SipHash did not finish in 25 min.  std::collections::HashMap
// stays out of reach (DESIGN R7); the seeded change C18-2 (index sort moved behind the per-column fitting loop) is therefore missed.

// NOTE: "fitting a column with non-integer values is an error" was tried as a harness (one symbolic non-category value at a symbolic
// position): the validity test comes before any hash table is used, but its outcome is a symbolic branch, so CBMC still explores the
// HashMap continuation (8 min, no result), and `CategoryMapper::fit_to_iter` (associated function with an `impl Iterator` argument)
// could not be replaced by a trap stub ("Cannot stub ... Expected type impl Iterator").  The value-level part of this clause is
// decided by c18_is_valid_f32/f64.
