//! C10 — SVM: kernels equal their closed forms and are symmetric; the decision function of an arbitrary model equals
//! its kernel expansion and the predicted label follows its sign.  Training (SMO) is outside the claim (DESIGN 6/C10).
use crate::common::*;
use smartcore::svm::{Kernel, Kernels, LinearKernel, PolynomialKernel, RBFKernel, SigmoidKernel};
use smartcore::verif_hooks::{verif_svc_from_parts, verif_svr_from_parts};

fn latvec<const D: usize>(lo: i8, hi: i8) -> ([i32; D], Vec<f64>) {
    let mut i = [0i32; D];
    let mut f = vec![0f64; D];
    for t in 0..D {
        let (a, b) = lat64(lo, hi);
        i[t] = a;
        f[t] = b;
    }
    (i, f)
}

macro_rules! linear_kernel {
    ($name:ident, $d:expr) => {
        vp_proof! {
            #[cfg_attr(kani, kani::unwind(6))]
            fn $name() {
                let (xi, x) = latvec::<$d>(-4, 4);
                let (yi, y) = latvec::<$d>(-4, 4);
                let k = Kernels::linear();
                let kxy: f64 = k.apply(&x, &y);
                let kyx: f64 = k.apply(&y, &x);
                let kxx: f64 = k.apply(&x, &x);
                let kyy: f64 = k.apply(&y, &y);
                let mut dxy = 0i32;
                let mut dxx = 0i32;
                let mut dyy = 0i32;
                for t in 0..$d {
                    dxy += xi[t] * yi[t];
                    dxx += xi[t] * xi[t];
                    dyy += yi[t] * yi[t];
                }
                vp_assert!(kxy == dxy as f64, "C10:linear-kernel-closed-form");
                vp_assert!(same64(kxy, kyx), "C10:linear-kernel-symmetric");
                // Gram matrix of two points is positive semi-definite
                vp_assert!(kxx >= 0.0 && kyy >= 0.0 && kxx * kyy - kxy * kyx >= 0.0, "C10:linear-gram-psd");
                let _ = (dxx, dyy);
                vp_reached!();
            }
        }
    };
}
// @vp name=c10_linear_kernel_d1 prop=C10 tier=quick t=300 fns=LinearKernel::apply,Vec::dot size=d=1 dom=lattice(-4..4),f64
linear_kernel!(c10_linear_kernel_d1, 1);
// @vp name=c10_linear_kernel_d2 prop=C10 tier=quick t=480 fns=LinearKernel::apply,Vec::dot size=d=2 dom=lattice(-4..4),f64
linear_kernel!(c10_linear_kernel_d2, 2);
// @vp name=c10_linear_kernel_d3 prop=C10 tier=quick t=480 fns=LinearKernel::apply,Vec::dot size=d=3 dom=lattice(-4..4),f64
linear_kernel!(c10_linear_kernel_d3, 3);

// RBF: the argument handed to exp is -gamma * ||x-y||^2, identical under exchange, exactly 0 for x == y
macro_rules! rbf_kernel {
    ($name:ident, $d:expr) => {
        #[cfg_attr(kani, kani::proof)]
        #[cfg_attr(kani, kani::unwind(6))]
        #[cfg_attr(kani, kani::stub(f64::exp, crate::common::rec_exp64))]
        pub fn $name() {
            let (xi, x) = latvec::<$d>(-4, 4);
            let (yi, y) = latvec::<$d>(-4, 4);
            let g2 = lat(1, 8); // gamma = g2/4
            let gamma = g2 as f64 / 4.0;
            let k = Kernels::rbf(gamma);
            let kxy: f64 = k.apply(&x, &y);
            let kyx: f64 = k.apply(&y, &x);
            let kxx: f64 = k.apply(&x, &x);
            let mut d2 = 0i32;
            for t in 0..$d {
                d2 += (xi[t] - yi[t]) * (xi[t] - yi[t]);
            }
            if cfg!(vp_playback) {
                let want = (-(gamma * d2 as f64)).exp();
                vp_assert!((kxy - want).abs() <= 1e-12 && (kyx - want).abs() <= 1e-12, "C10:rbf-kernel-closed-form");
                vp_assert!(kxx == 1.0, "C10:rbf-kernel-of-identical-points-is-one");
            } else {
                vp_assert!(nlog64() == 3, "C10:rbf-exp-calls");
                vp_assert!(getlog64(0) == -(g2 * d2) as f64 / 4.0, "C10:rbf-exponent-closed-form");
                vp_assert!(same64(getlog64(0), getlog64(1)), "C10:rbf-kernel-symmetric");
                vp_assert!(getlog64(2) == 0.0, "C10:rbf-kernel-of-identical-points-is-one");
                vp_assert!(kxy == getlog64(0), "C10:rbf-returns-exp-of-exponent");
            }
            vp_reached!();
        }
    };
}
// @vp name=c10_rbf_kernel_d1 prop=C10 tier=quick t=300 fns=RBFKernel::apply,Vec::sub,Vec::mul,Vec::sum size=d=1 dom=lattice(-4..4),gamma-k/4,f64 stubs=rec_exp64
rbf_kernel!(c10_rbf_kernel_d1, 1);
// @vp name=c10_rbf_kernel_d3 prop=C10 tier=quick t=480 fns=RBFKernel::apply,Vec::sub,Vec::mul,Vec::sum size=d=3 dom=lattice(-4..4),gamma-k/4,f64 stubs=rec_exp64
rbf_kernel!(c10_rbf_kernel_d3, 3);

// polynomial kernel of integer degree 1..4: VALUE against the closed form (gamma <x,y> + coef0)^degree (negative bases and even
// degrees included), symmetric.  powf is replaced by its mathematical meaning for integer exponents (semantic stub), so the check
// is about values and indifferent to how the power is computed; natively (replay) the real powf is used.
macro_rules! polynomial_kernel {
    ($name:ident, $deg:expr) => {
        #[cfg_attr(kani, kani::proof)]
        #[cfg_attr(kani, kani::unwind(6))]
        #[cfg_attr(kani, kani::stub(f64::powf, crate::common::powf_sem64))]
        pub fn $name() {
            let (xi, x) = latvec::<2>(-4, 4);
            let (yi, y) = latvec::<2>(-4, 4);
            let g2 = lat(1, 8);
            let c0 = lat(-2, 4);
            let deg: i32 = $deg;
            let k = Kernels::polynomial(deg as f64, g2 as f64 / 4.0, c0 as f64);
            let kxy: f64 = k.apply(&x, &y);
            let kyx: f64 = k.apply(&y, &x);
            let dot = xi[0] * yi[0] + xi[1] * yi[1];
            // 4 * base is an integer: base^deg = (4 base)^deg / 4^deg, exactly representable
            let b4 = (g2 * dot + 4 * c0) as i64;
            let mut num = 1i64;
            let mut den = 1i64;
            for _ in 0..deg {
                num *= b4;
                den *= 4;
            }
            let want = num as f64 / den as f64;
            vp_assert!((kxy - want).abs() <= 1e-9 * (1.0 + want.abs()), "C10:polynomial-kernel-closed-form");
            vp_assert!((kyx - kxy).abs() <= 1e-9 * (1.0 + want.abs()), "C10:polynomial-kernel-symmetric");
            vp_reached!();
        }
    };
}
// @vp name=c10_polynomial_kernel_deg2 prop=C10 tier=quick t=480 fns=PolynomialKernel::apply size=d=2,degree=2 dom=lattice(-4..4),gamma-k/4,coef0-lattice(-2..4),f64 stubs=powf_sem64
polynomial_kernel!(c10_polynomial_kernel_deg2, 2);
// @vp name=c10_polynomial_kernel_deg3 prop=C10 tier=quick t=480 fns=PolynomialKernel::apply size=d=2,degree=3 dom=lattice(-4..4),gamma-k/4,coef0-lattice(-2..4),f64 stubs=powf_sem64
polynomial_kernel!(c10_polynomial_kernel_deg3, 3);
// @vp name=c10_polynomial_kernel_deg1 prop=C10 tier=quick t=480 fns=PolynomialKernel::apply size=d=2,degree=1 dom=lattice(-4..4),gamma-k/4,coef0-lattice(-2..4),f64 stubs=powf_sem64
polynomial_kernel!(c10_polynomial_kernel_deg1, 1);
// @vp name=c10_polynomial_kernel_deg4 prop=C10 tier=thorough t=1800 fns=PolynomialKernel::apply size=d=2,degree=4 dom=lattice(-4..4),gamma-k/4,coef0-lattice(-2..4),f64 stubs=powf_sem64
polynomial_kernel!(c10_polynomial_kernel_deg4, 4);
// @vp name=c10_polynomial_with_degree prop=C10 tier=quick t=300 fns=Kernels::polynomial_with_degree size=n_features=4 dom=concrete
vp_proof! {
    fn c10_polynomial_with_degree() {
        let k: PolynomialKernel<f64> = Kernels::polynomial_with_degree(3.0, 4);
        vp_assert!(k.degree == 3.0 && k.gamma == 0.25 && k.coef0 == 1.0, "C10:polynomial-with-degree-defaults");
        let s: SigmoidKernel<f64> = Kernels::sigmoid_with_gamma(0.5);
        vp_assert!(s.gamma == 0.5 && s.coef0 == 1.0, "C10:sigmoid-with-gamma-defaults");
        vp_reached!();
    }
}
// @vp name=c10_sigmoid_kernel_d2 prop=C10 tier=quick t=480 fns=SigmoidKernel::apply size=d=2 dom=lattice(-4..4),gamma-k/4,coef0-lattice,f64 stubs=rec_tanh64
#[cfg_attr(kani, kani::proof)]
#[cfg_attr(kani, kani::unwind(6))]
#[cfg_attr(kani, kani::stub(f64::tanh, crate::common::rec_tanh64))]
pub fn c10_sigmoid_kernel_d2() {
    let (xi, x) = latvec::<2>(-4, 4);
    let (yi, y) = latvec::<2>(-4, 4);
    let g2 = lat(1, 8);
    let c0 = lat(-4, 4);
    let k = Kernels::sigmoid(g2 as f64 / 4.0, c0 as f64);
    let kxy: f64 = k.apply(&x, &y);
    let kyx: f64 = k.apply(&y, &x);
    let dot = xi[0] * yi[0] + xi[1] * yi[1];
    let arg = (g2 * dot) as f64 / 4.0 + c0 as f64;
    if cfg!(vp_playback) {
        vp_assert!((kxy - arg.tanh()).abs() <= 1e-12 && (kyx - arg.tanh()).abs() <= 1e-12, "C10:sigmoid-kernel-closed-form");
    } else {
        vp_assert!(nlog64() == 2, "C10:sigmoid-tanh-calls");
        vp_assert!(getlog64(0) == arg, "C10:sigmoid-kernel-closed-form");
        vp_assert!(same64(getlog64(0), getlog64(1)), "C10:sigmoid-kernel-symmetric");
        vp_assert!(kxy == arg, "C10:sigmoid-returns-tanh");
    }
    vp_reached!();
}

// kernels reject vectors of different length
// @vp name=c10_kernel_length_mismatch prop=C10 tier=quick t=300 fns=LinearKernel::apply,RBFKernel::apply,PolynomialKernel::apply,SigmoidKernel::apply size=2-vs-3 dom=kernel-symbolic expect=panic stubs=rec_exp64,rec_powf64,rec_tanh64
#[cfg_attr(kani, kani::proof)]
#[cfg_attr(kani, kani::unwind(6))]
#[cfg_attr(kani, kani::stub(f64::exp, crate::common::rec_exp64))]
#[cfg_attr(kani, kani::stub(f64::powf, crate::common::rec_powf64))]
#[cfg_attr(kani, kani::stub(f64::tanh, crate::common::rec_tanh64))]
pub fn c10_kernel_length_mismatch() {
    let x = vec![1.0f64, 2.0];
    let y = vec![1.0f64, 2.0, 3.0];
    let which = anyu(0, 3);
    let swap: bool = kani::any();
    let (a, b) = if swap { (&y, &x) } else { (&x, &y) };
    vp_reached!();
    let _r: f64 = match which {
        0 => Kernels::linear().apply(a, b),
        1 => Kernels::rbf(0.5).apply(a, b),
        2 => Kernels::polynomial(2.0, 0.5, 1.0).apply(a, b),
        _ => Kernels::sigmoid(0.5, 1.0).apply(a, b),
    };
    vp_fail!("C10:kernel-length-mismatch-not-rejected");
}

// ---------------------------------------------------------------------------------------------
// prediction formula on an arbitrary model: f(x) = sum_i w_i K(sv_i, x) + b ; label = larger class iff f(x) > 0
// ---------------------------------------------------------------------------------------------
macro_rules! svc_predict {
    ($name:ident, $nsv:expr, $d:expr, $unw:expr) => {
        vp_proof_traps! {
            #[cfg_attr(kani, kani::unwind($unw))]
            fn $name() {
                const S: usize = $nsv;
                const D: usize = $d;
                let mut svi = [[0i32; D]; S];
                let mut sv: Vec<Vec<f64>> = Vec::new();
                let mut wi = [0i32; S];
                let mut w = vec![0f64; S];
                for s in 0..S {
                    let (a, b) = latvec::<D>(-3, 3);
                    svi[s] = a;
                    sv.push(b);
                    let (a, b) = lat64(-4, 4);
                    wi[s] = a;
                    w[s] = b / 2.0;
                }
                let (bi, b) = lat64(-4, 4);
                let (qi, q) = latvec::<D>(-3, 3);
                let (c0i, c0) = lat64(-5, 5);
                let (c1i, c1) = lat64(-5, 5);
                kani::assume(c0i < c1i);
                let m = verif_svc_from_parts::<f64, DenseMatrix<f64>, LinearKernel>(vec![c0, c1], Kernels::linear(), sv, w, b / 2.0);
                let x = DenseMatrix::from_array(1, D, &q[..]);
                // 2 * f(x) in integers
                let mut f2 = bi;
                for s in 0..S {
                    let mut dot = 0i32;
                    for t in 0..D {
                        dot += svi[s][t] * qi[t];
                    }
                    f2 += wi[s] * dot;
                }
                match m.decision_function(&x) {
                    Ok(d) => vp_assert!(d.len() == 1 && d[0] == f2 as f64 / 2.0, "C10:svc-decision-function-is-kernel-expansion"),
                    Err(_) => vp_fail!("C10:svc-decision-function-failed"),
                }
                match m.predict(&x) {
                    Ok(p) => vp_assert!(p.len() == 1 && p[0] == if f2 > 0 { c1 } else { c0 }, "C10:svc-label-follows-sign-of-decision-value"),
                    Err(_) => vp_fail!("C10:svc-predict-failed"),
                }
                vp_reached!();
            }
        }
    };
}
// @vp name=c10_svc_predict_2sv_d1 prop=C10 tier=quick t=480 fns=SVC::decision_function,SVC::predict,predict_for_row,LinearKernel::apply size=2-support-vectors,d=1 dom=lattice,weights-k/2,bias-k/2,classes-symbolic stubs=traps,no_format
svc_predict!(c10_svc_predict_2sv_d1, 2, 1, 6);
// @vp name=c10_svc_predict_2sv_d2 prop=C10 tier=quick t=480 fns=SVC::decision_function,SVC::predict,predict_for_row,LinearKernel::apply size=2-support-vectors,d=2 dom=lattice,weights-k/2,bias-k/2,classes-symbolic stubs=traps,no_format
svc_predict!(c10_svc_predict_2sv_d2, 2, 2, 6);
// @vp name=c10_svc_predict_3sv_d2 prop=C10 tier=thorough t=2400 fns=SVC::decision_function,SVC::predict,predict_for_row,LinearKernel::apply size=3-support-vectors,d=2 dom=lattice,weights-k/2,bias-k/2,classes-symbolic stubs=traps,no_format
svc_predict!(c10_svc_predict_3sv_d2, 3, 2, 7);

// two query rows: each row's value goes to its own slot
// @vp name=c10_svc_predict_rows prop=C10 tier=quick t=480 fns=SVC::decision_function,SVC::predict size=1-support-vector,d=1,2-query-rows dom=lattice stubs=traps,no_format
vp_proof_traps! {
    #[cfg_attr(kani, kani::unwind(6))]
    fn c10_svc_predict_rows() {
        let (si, s) = lat64(-3, 3);
        let (wi, w) = lat64(-3, 3);
        let (bi, b) = lat64(-3, 3);
        let (q0i, q0) = lat64(-3, 3);
        let (q1i, q1) = lat64(-3, 3);
        let m = verif_svc_from_parts::<f64, DenseMatrix<f64>, LinearKernel>(vec![-1.0, 1.0], Kernels::linear(), vec![vec![s]], vec![w], b);
        let x = DenseMatrix::from_array(2, 1, &[q0, q1]);
        match m.decision_function(&x) {
            Ok(d) => {
                vp_assert!(d.len() == 2, "C10:svc-one-value-per-row");
                vp_assert!(d[0] == (wi * si * q0i + bi) as f64 && d[1] == (wi * si * q1i + bi) as f64, "C10:svc-decision-function-is-kernel-expansion");
            }
            Err(_) => vp_fail!("C10:svc-decision-function-failed"),
        }
        vp_reached!();
    }
}

// @vp name=c10_svr_predict_2sv_d2 prop=C10 tier=quick t=480 fns=SVR::predict,predict_for_row,LinearKernel::apply size=2-support-vectors,d=2,2-query-rows dom=lattice,weights-k/2,bias-k/2 stubs=traps,no_format
vp_proof_traps! {
    #[cfg_attr(kani, kani::unwind(6))]
    fn c10_svr_predict_2sv_d2() {
        let mut svi = [[0i32; 2]; 2];
        let mut sv: Vec<Vec<f64>> = Vec::new();
        let mut wi = [0i32; 2];
        let mut w = vec![0f64; 2];
        for s in 0..2 {
            let (a, b) = latvec::<2>(-3, 3);
            svi[s] = a;
            sv.push(b);
            let (a, b) = lat64(-4, 4);
            wi[s] = a;
            w[s] = b / 2.0;
        }
        let (bi, b) = lat64(-4, 4);
        let (q0i, q0) = latvec::<2>(-3, 3);
        let (q1i, q1) = latvec::<2>(-3, 3);
        let m = verif_svr_from_parts::<f64, DenseMatrix<f64>, LinearKernel>(Kernels::linear(), sv, w, b / 2.0);
        let x = DenseMatrix::from_array(2, 2, &[q0[0], q0[1], q1[0], q1[1]]);
        let f2 = |q: &[i32; 2]| {
            let mut f = bi;
            for s in 0..2 {
                f += wi[s] * (svi[s][0] * q[0] + svi[s][1] * q[1]);
            }
            f
        };
        match m.predict(&x) {
            Ok(p) => {
                vp_assert!(p.len() == 2, "C10:svr-one-value-per-row");
                vp_assert!(p[0] == f2(&q0i) as f64 / 2.0 && p[1] == f2(&q1i) as f64 / 2.0, "C10:svr-prediction-is-kernel-expansion");
            }
            Err(_) => vp_fail!("C10:svr-predict-failed"),
        }
        vp_reached!();
    }
}
