//! C15 — evaluation metrics equal their textbook definitions (without the cluster scores, DESIGN 6/C15).
use crate::common::*;
use smartcore::metrics::accuracy::Accuracy;
use smartcore::metrics::auc::AUC;
use smartcore::metrics::f1::F1;
use smartcore::metrics::mean_absolute_error::MeanAbsoluteError;
use smartcore::metrics::mean_squared_error::MeanSquareError;
use smartcore::metrics::precision::Precision;
use smartcore::metrics::r2::R2;
use smartcore::metrics::recall::Recall;

macro_rules! accuracy_n {
    ($name:ident, $n:expr) => {
        vp_proof! {
            #[cfg_attr(kani, kani::unwind(7))]
            fn $name() {
                let mut t = vec![0f64; $n];
                let mut p = vec![0f64; $n];
                let mut eq = 0;
                for i in 0..$n {
                    let (a, af) = lat64(-1, 2);
                    let (b, bf) = lat64(-1, 2);
                    t[i] = af;
                    p[i] = bf;
                    if a == b {
                        eq += 1;
                    }
                }
                let s: f64 = Accuracy {}.get_score(&t, &p);
                vp_assert!(s == eq as f64 / $n as f64, "C15:accuracy-definition");
                vp_reached!();
            }
        }
    };
}
// @vp name=c15_accuracy_n1 prop=C15 tier=quick t=300 fns=Accuracy::get_score size=n=1 dom=labels-lattice(-1..2),f64
accuracy_n!(c15_accuracy_n1, 1);
// @vp name=c15_accuracy_n3 prop=C15 tier=quick t=300 fns=Accuracy::get_score size=n=3 dom=labels-lattice(-1..2),f64
accuracy_n!(c15_accuracy_n3, 3);
// @vp name=c15_accuracy_n4 prop=C15 tier=quick t=600 fns=Accuracy::get_score size=n=4 dom=labels-lattice(-1..2),f64
accuracy_n!(c15_accuracy_n4, 4);
// @vp name=c15_accuracy_n5 prop=C15 tier=thorough t=1200 fns=Accuracy::get_score size=n=5 dom=labels-lattice(-1..2),f64
accuracy_n!(c15_accuracy_n5, 5);

fn b2f(b: bool) -> f64 {
    if b {
        1.0
    } else {
        0.0
    }
}

macro_rules! prf_n {
    ($name:ident, $n:expr) => {
        vp_proof! {
            #[cfg_attr(kani, kani::unwind(7))]
            fn $name() {
                let t: [bool; $n] = kani::any();
                let p: [bool; $n] = kani::any();
                let mut tp = 0i32;
                let mut fp = 0i32;
                let mut fnn = 0i32;
                for i in 0..$n {
                    if p[i] && t[i] {
                        tp += 1
                    }
                    if p[i] && !t[i] {
                        fp += 1
                    }
                    if !p[i] && t[i] {
                        fnn += 1
                    }
                }
                let yt: Vec<f64> = t.iter().map(|b| b2f(*b)).collect();
                let yp: Vec<f64> = p.iter().map(|b| b2f(*b)).collect();
                if tp + fp >= 1 {
                    let pr: f64 = Precision {}.get_score(&yt, &yp);
                    vp_assert!(pr == tp as f64 / (tp + fp) as f64, "C15:precision-definition");
                }
                if tp + fnn >= 1 {
                    let rc: f64 = Recall {}.get_score(&yt, &yp);
                    vp_assert!(rc == tp as f64 / (tp + fnn) as f64, "C15:recall-definition");
                }
                vp_reached!();
            }
        }
    };
}
// @vp name=c15_precision_recall_n1 prop=C15 tier=quick t=300 fns=Precision::get_score,Recall::get_score size=n=1 dom=labels{0,1}symbolic,f64
prf_n!(c15_precision_recall_n1, 1);
// @vp name=c15_precision_recall_n3 prop=C15 tier=quick t=600 fns=Precision::get_score,Recall::get_score size=n=3 dom=labels{0,1}symbolic,f64
prf_n!(c15_precision_recall_n3, 3);
// @vp name=c15_precision_recall_n4 prop=C15 tier=quick t=900 fns=Precision::get_score,Recall::get_score size=n=4 dom=labels{0,1}symbolic,f64
prf_n!(c15_precision_recall_n4, 4);
// @vp name=c15_precision_recall_n5 prop=C15 tier=thorough t=1800 fns=Precision::get_score,Recall::get_score size=n=5 dom=labels{0,1}symbolic,f64
prf_n!(c15_precision_recall_n5, 5);

// F-beta = (1+b^2) tp / ((1+b^2) tp + b^2 fn + fp); beta in {1/2, 1, 2} -> 4*b^2 in {1, 4, 16}
macro_rules! fbeta_n {
    ($name:ident, $n:expr) => {
        vp_proof! {
            #[cfg_attr(kani, kani::unwind(7))]
            fn $name() {
                let t: [bool; $n] = kani::any();
                let p: [bool; $n] = kani::any();
                let which = anyu(0, 2);
                let (beta, b2x4) = match which {
                    0 => (0.5f64, 1i32),
                    1 => (1.0f64, 4i32),
                    _ => (2.0f64, 16i32),
                };
                let mut tp = 0i32;
                let mut fp = 0i32;
                let mut fnn = 0i32;
                for i in 0..$n {
                    if p[i] && t[i] {
                        tp += 1
                    }
                    if p[i] && !t[i] {
                        fp += 1
                    }
                    if !p[i] && t[i] {
                        fnn += 1
                    }
                }
                kani::assume(tp >= 1);
                let yt: Vec<f64> = t.iter().map(|b| b2f(*b)).collect();
                let yp: Vec<f64> = p.iter().map(|b| b2f(*b)).collect();
                let f: f64 = F1 { beta }.get_score(&yt, &yp);
                // exact value as a ratio of small integers (everything multiplied by 4)
                let num = ((4 + b2x4) * tp) as f64;
                let den = ((4 + b2x4) * tp + b2x4 * fnn + 4 * fp) as f64;
                vp_assert!((f * den - num).abs() <= 1e-12 * num, "C15:fbeta-definition");
                vp_assert!(f > 0.0 && f <= 1.0 + 1e-15, "C15:fbeta-range");
                vp_reached!();
            }
        }
    };
}
// @vp name=c15_fbeta_n2 prop=C15 tier=quick t=600 fns=F1::get_score,Precision::get_score,Recall::get_score size=n=2 dom=labels{0,1}symbolic,beta{.5,1,2},f64
fbeta_n!(c15_fbeta_n2, 2);
// @vp name=c15_fbeta_n3 prop=C15 tier=quick t=900 fns=F1::get_score,Precision::get_score,Recall::get_score size=n=3 dom=labels{0,1}symbolic,beta{.5,1,2},f64
fbeta_n!(c15_fbeta_n3, 3);
// @vp name=c15_fbeta_n4 prop=C15 tier=thorough t=2400 fns=F1::get_score,Precision::get_score,Recall::get_score size=n=4 dom=labels{0,1}symbolic,beta{.5,1,2},f64
fbeta_n!(c15_fbeta_n4, 4);

// AUC = (#{pos > neg} + 1/2 #{pos == neg}) / (n_pos * n_neg), ties included, labels symbolic
macro_rules! auc_n {
    ($name:ident, $n:expr) => {
        vp_proof! {
            #[cfg_attr(kani, kani::unwind(8))]
            fn $name() {
                let s: [f32; $n] = kani::any();
                let l: [bool; $n] = kani::any();
                for t in 0..$n {
                    kani::assume(s[t].is_finite());
                }
                let mut np = 0usize;
                for t in 0..$n {
                    if l[t] {
                        np += 1;
                    }
                }
                kani::assume(np >= 1 && np < $n);
                let yt: Vec<f32> = l.iter().map(|b| if *b { 1.0 } else { 0.0 }).collect();
                let a: f32 = AUC {}.get_score(&yt, &s.to_vec());
                let mut num = 0i32;
                for p in 0..$n {
                    for n in 0..$n {
                        if l[p] && !l[n] {
                            if s[p] > s[n] {
                                num += 2
                            } else if s[p] == s[n] {
                                num += 1
                            }
                        }
                    }
                }
                let den = (2 * np * ($n - np)) as f32;
                vp_assert!(a == (num as f32) / den, "C15:auc-definition");
                vp_reached!();
            }
        }
    };
}
// @vp name=c15_auc_n2 prop=C15 tier=quick t=300 fns=AUC::get_score,quick_argsort_mut size=n=2 dom=scores-any-finite-f32,labels-symbolic
auc_n!(c15_auc_n2, 2);
// @vp name=c15_auc_n3 prop=C15 tier=quick t=600 fns=AUC::get_score,quick_argsort_mut size=n=3 dom=scores-any-finite-f32,labels-symbolic
auc_n!(c15_auc_n3, 3);
// @vp name=c15_auc_n4 prop=C15 tier=quick t=900 fns=AUC::get_score,quick_argsort_mut size=n=4 dom=scores-any-finite-f32,labels-symbolic
auc_n!(c15_auc_n4, 4);
// @vp name=c15_auc_n5 prop=C15 tier=thorough t=3000 fns=AUC::get_score,quick_argsort_mut size=n=5 dom=scores-any-finite-f32,labels-symbolic
auc_n!(c15_auc_n5, 5);

macro_rules! mse_mae_n {
    ($name:ident, $n:expr) => {
        vp_proof! {
            #[cfg_attr(kani, kani::unwind(7))]
            fn $name() {
                let mut t = vec![0f64; $n];
                let mut p = vec![0f64; $n];
                let mut se = 0i32;
                let mut ae = 0i32;
                for i in 0..$n {
                    let (a, af) = lat64(-4, 4);
                    let (b, bf) = lat64(-4, 4);
                    t[i] = af;
                    p[i] = bf;
                    se += (a - b) * (a - b);
                    ae += (a - b).abs();
                }
                let m: f64 = MeanSquareError {}.get_score(&t, &p);
                let a: f64 = MeanAbsoluteError {}.get_score(&t, &p);
                vp_assert!(m == se as f64 / $n as f64, "C15:mse-definition");
                vp_assert!(a == ae as f64 / $n as f64, "C15:mae-definition");
                vp_reached!();
            }
        }
    };
}
// @vp name=c15_mse_mae_n1 prop=C15 tier=quick t=300 fns=MeanSquareError::get_score,MeanAbsoluteError::get_score size=n=1 dom=lattice(-4..4),f64
mse_mae_n!(c15_mse_mae_n1, 1);
// @vp name=c15_mse_mae_n3 prop=C15 tier=quick t=600 fns=MeanSquareError::get_score,MeanAbsoluteError::get_score size=n=3 dom=lattice(-4..4),f64
mse_mae_n!(c15_mse_mae_n3, 3);
// @vp name=c15_mse_mae_n4 prop=C15 tier=quick t=900 fns=MeanSquareError::get_score,MeanAbsoluteError::get_score size=n=4 dom=lattice(-4..4),f64
mse_mae_n!(c15_mse_mae_n4, 4);

// half-integer residuals: (k/2) lattice so that squares need the fraction bits
// @vp name=c15_mse_mae_halves_n3 prop=C15 tier=quick t=600 fns=MeanSquareError::get_score,MeanAbsoluteError::get_score size=n=3 dom=lattice(-8..8)/2,f64
vp_proof! {
    #[cfg_attr(kani, kani::unwind(7))]
    fn c15_mse_mae_halves_n3() {
        let mut t = vec![0f64; 3];
        let mut p = vec![0f64; 3];
        let mut se = 0i32;
        let mut ae = 0i32;
        for i in 0..3 {
            let (a, af) = lat64(-8, 8);
            let (b, bf) = lat64(-8, 8);
            t[i] = af / 2.0;
            p[i] = bf / 2.0;
            se += (a - b) * (a - b);
            ae += (a - b).abs();
        }
        let m: f64 = MeanSquareError {}.get_score(&t, &p);
        let a: f64 = MeanAbsoluteError {}.get_score(&t, &p);
        vp_assert!(m == (se as f64 / 4.0) / 3.0, "C15:mse-definition");
        vp_assert!(a == (ae as f64 / 2.0) / 3.0, "C15:mae-definition");
        vp_reached!();
    }
}

// R^2 = 1 - ss_res/ss_tot, asserted cross-multiplied
macro_rules! r2_n {
    ($name:ident, $n:expr, $lo:expr, $hi:expr) => {
        vp_proof! {
            #[cfg_attr(kani, kani::unwind(7))]
            fn $name() {
                let mut t = vec![0f32; $n];
                let mut p = vec![0f32; $n];
                let mut ti = [0i32; $n];
                let mut pi = [0i32; $n];
                for i in 0..$n {
                    let (a, af) = lat32($lo, $hi);
                    let (b, bf) = lat32($lo, $hi);
                    t[i] = af;
                    p[i] = bf;
                    ti[i] = a;
                    pi[i] = b;
                }
                let mut s = 0i32;
                for i in 0..$n {
                    s += ti[i];
                }
                // n^2 * ss_tot = sum (n y - s)^2
                let mut tot = 0i32;
                let mut res = 0i32;
                for i in 0..$n {
                    tot += ($n * ti[i] - s) * ($n * ti[i] - s);
                    res += (ti[i] - pi[i]) * (ti[i] - pi[i]);
                }
                kani::assume(tot > 0);
                let r: f32 = R2 {}.get_score(&t, &p);
                // (1 - r) * tot = n^2 * res
                let lhs = (1.0 - r) * tot as f32;
                let rhs = ($n * $n * res) as f32;
                vp_assert!((lhs - rhs).abs() <= 64.0 * f32::EPSILON * (rhs + tot as f32), "C15:r2-definition");
                if res == 0 {
                    vp_assert!(r == 1.0, "C15:r2-perfect-fit");
                }
                vp_reached!();
            }
        }
    };
}
// @vp name=c15_r2_n2 prop=C15 tier=quick t=900 fns=R2::get_score size=n=2 dom=lattice(-3..3),f32
r2_n!(c15_r2_n2, 2, -3, 3);
// @vp name=c15_r2_n3 prop=C15 tier=thorough t=3000 fns=R2::get_score size=n=3 dom=lattice(-2..2),f32
r2_n!(c15_r2_n3, 3, -2, 2);

// length mismatch is rejected (panic) by the seven pairwise metrics
macro_rules! mismatch {
    ($name:ident, $call:expr, $tag:literal) => {
        #[cfg_attr(kani, kani::proof)]
        #[cfg_attr(kani, kani::unwind(7))]
        pub fn $name() {
            let swap: bool = kani::any();
            let a: Vec<f64> = vec![b2f(kani::any()), b2f(kani::any())];
            let b: Vec<f64> = vec![b2f(kani::any()), b2f(kani::any()), b2f(kani::any())];
            vp_reached!();
            let f = $call;
            let _r: f64 = if swap { f(&b, &a) } else { f(&a, &b) };
            vp_fail!($tag);
        }
    };
}
// @vp name=c15_mismatch_accuracy prop=C15 tier=quick t=300 fns=Accuracy::get_score size=2-vs-3 dom=labels{0,1} expect=panic
mismatch!(c15_mismatch_accuracy, |x: &Vec<f64>, y: &Vec<f64>| Accuracy {}.get_score(x, y), "C15:accuracy-mismatch-not-rejected");
// @vp name=c15_mismatch_precision prop=C15 tier=quick t=300 fns=Precision::get_score size=2-vs-3 dom=labels{0,1} expect=panic
mismatch!(c15_mismatch_precision, |x: &Vec<f64>, y: &Vec<f64>| Precision {}.get_score(x, y), "C15:precision-mismatch-not-rejected");
// @vp name=c15_mismatch_recall prop=C15 tier=quick t=300 fns=Recall::get_score size=2-vs-3 dom=labels{0,1} expect=panic
mismatch!(c15_mismatch_recall, |x: &Vec<f64>, y: &Vec<f64>| Recall {}.get_score(x, y), "C15:recall-mismatch-not-rejected");
// @vp name=c15_mismatch_f1 prop=C15 tier=quick t=300 fns=F1::get_score size=2-vs-3 dom=labels{0,1} expect=panic
mismatch!(c15_mismatch_f1, |x: &Vec<f64>, y: &Vec<f64>| F1 { beta: 1.0 }.get_score(x, y), "C15:fbeta-mismatch-not-rejected");
// @vp name=c15_mismatch_mse prop=C15 tier=quick t=300 fns=MeanSquareError::get_score size=2-vs-3 dom=labels{0,1} expect=panic
mismatch!(c15_mismatch_mse, |x: &Vec<f64>, y: &Vec<f64>| MeanSquareError {}.get_score(x, y), "C15:mse-mismatch-not-rejected");
// @vp name=c15_mismatch_mae prop=C15 tier=quick t=300 fns=MeanAbsoluteError::get_score size=2-vs-3 dom=labels{0,1} expect=panic
mismatch!(c15_mismatch_mae, |x: &Vec<f64>, y: &Vec<f64>| MeanAbsoluteError {}.get_score(x, y), "C15:mae-mismatch-not-rejected");
// @vp name=c15_mismatch_r2 prop=C15 tier=quick t=300 fns=R2::get_score size=2-vs-3 dom=labels{0,1} expect=panic
mismatch!(c15_mismatch_r2, |x: &Vec<f64>, y: &Vec<f64>| R2 {}.get_score(x, y), "C15:r2-mismatch-not-rejected");

// NOTE: mutual_info_score (the HashMap-free kernel of the cluster scores) was tried with an identity `ln` surrogate on
// 2x2 / 2x3 / 3x2 contingency tables with symbolic counts: it collects the non-zero cells into vectors whose length depends
// on the data, every later loop and allocation then has a symbolic size, and CBMC ran out of memory (14 GB) in under 3 minutes.
// The cluster-score clause therefore stays outside the claim (DESIGN 6/C15).
