//! C04 — nearest-neighbour search is exact (selection structure, exhaustive scan, radius query, weights, error cases).
use crate::common::*;
use smartcore::algorithm::neighbour::cover_tree::CoverTree;
use smartcore::algorithm::neighbour::linear_search::LinearKNNSearch;
use smartcore::algorithm::neighbour::KNNAlgorithmName;
use smartcore::math::distance::manhattan::Manhattan;
use smartcore::math::distance::Distance;
use smartcore::neighbors::knn_classifier::{KNNClassifier, KNNClassifierParameters};
use smartcore::neighbors::knn_regressor::{KNNRegressor, KNNRegressorParameters};
use smartcore::neighbors::KNNWeightFunction;
use smartcore::verif_hooks::{verif_calc_weights, HeapSelection};

#[derive(Clone, Debug)]
pub struct AbsD;
impl Distance<i32, f64> for AbsD {
    fn distance(&self, a: &i32, b: &i32) -> f64 {
        (a - b).abs() as f64
    }
}

// ---------------------------------------------------------------------------------------------
// HeapSelection: after n adds with capacity k the structure holds exactly the k smallest (as a multiset),
// and peek() is the k-th smallest after every add once k elements were seen.
// ---------------------------------------------------------------------------------------------
macro_rules! heap_select {
    ($name:ident, $k:expr, $n:expr, $unw:expr) => {
        vp_proof! {
            #[cfg_attr(kani, kani::unwind($unw))]
            fn $name() {
                const K: usize = $k;
                const N: usize = $n;
                let a8: [i8; N] = kani::any();
                let mut a = [0i32; N];
                for i in 0..N {
                    a[i] = a8[i] as i32;
                }
                let mut h = HeapSelection::<i32>::with_capacity(K);
                for i in 0..N {
                    h.add(a[i]);
                    if i + 1 >= K {
                        // k-th smallest of a[0..=i]: the value t with #(< t) < K <= #(<= t)
                        let t = *h.peek();
                        let mut lt = 0;
                        let mut le = 0;
                        for j in 0..=i {
                            if a[j] < t {
                                lt += 1;
                            }
                            if a[j] <= t {
                                le += 1;
                            }
                        }
                        vp_assert!(lt < K && le >= K, "C04:heap-peek-is-kth-smallest");
                    }
                }
                let r = h.get();
                vp_assert!(r.len() == K, "C04:heap-holds-k");
                let mut t = r[0];
                for j in 0..K {
                    if r[j] > t {
                        t = r[j];
                    }
                }
                // multiset inclusion, and everything below the maximum is included completely
                for j in 0..K {
                    let v = r[j];
                    let mut cr = 0;
                    let mut ca = 0;
                    for q in 0..K {
                        if r[q] == v {
                            cr += 1;
                        }
                    }
                    for q in 0..N {
                        if a[q] == v {
                            ca += 1;
                        }
                    }
                    vp_assert!(cr <= ca, "C04:heap-result-is-sub-multiset");
                    if v < t {
                        vp_assert!(cr == ca, "C04:heap-result-has-all-smaller-elements");
                    }
                }
                for q in 0..N {
                    if a[q] < t {
                        let mut found = false;
                        for j in 0..K {
                            if r[j] == a[q] {
                                found = true;
                            }
                        }
                        vp_assert!(found, "C04:heap-result-has-all-smaller-elements");
                    }
                }
                vp_reached!();
            }
        }
    };
}
// @vp name=c04_heap_k1_n3 prop=C04 tier=quick t=300 fns=HeapSelection::add,peek,get,sift_down,sort size=k=1,n=3 dom=any-i8
heap_select!(c04_heap_k1_n3, 1, 3, 6);
// @vp name=c04_heap_k2_n4 prop=C04 tier=quick t=480 fns=HeapSelection::add,peek,get,sift_down,sort size=k=2,n=4 dom=any-i8
heap_select!(c04_heap_k2_n4, 2, 4, 7);
// @vp name=c04_heap_k3_n5 prop=C04 tier=quick t=480 fns=HeapSelection::add,peek,get,sift_down,sort size=k=3,n=5 dom=any-i8
heap_select!(c04_heap_k3_n5, 3, 5, 8);
// @vp name=c04_heap_k3_n6 prop=C04 tier=thorough t=2400 fns=HeapSelection::add,peek,get,sift_down,sort size=k=3,n=6 dom=any-i8
heap_select!(c04_heap_k3_n6, 3, 6, 9);
// @vp name=c04_heap_k4_n6 prop=C04 tier=thorough t=3000 fns=HeapSelection::add,peek,get,sift_down,sort size=k=4,n=6 dom=any-i8
heap_select!(c04_heap_k4_n6, 4, 6, 9);

// heapify after overwriting the root (the way LinearKNNSearch uses the structure): maximum back at index 0
macro_rules! heapify {
    ($name:ident, $k:expr, $unw:expr) => {
        vp_proof! {
            #[cfg_attr(kani, kani::unwind($unw))]
            fn $name() {
                const K: usize = $k;
                let a8: [i8; K] = kani::any();
                let x = (kani::any::<i8>()) as i32;
                let mut h = HeapSelection::<i32>::with_capacity(K);
                let mut mx = i32::MIN;
                for i in 0..K {
                    h.add(a8[i] as i32);
                }
                // root holds the maximum after the k-th add; replace it by something not larger and re-heapify
                let root = *h.peek_mut();
                for i in 0..K {
                    if (a8[i] as i32) > mx {
                        mx = a8[i] as i32;
                    }
                }
                vp_assert!(root == mx, "C04:heap-root-is-maximum");
                kani::assume(x <= root);
                *h.peek_mut() = x;
                h.heapify();
                let top = *h.peek_mut();
                let r = h.get();
                for j in 0..K {
                    vp_assert!(r[j] <= top, "C04:heapify-restores-maximum-at-root");
                }
                vp_reached!();
            }
        }
    };
}
// @vp name=c04_heapify_k2 prop=C04 tier=quick t=300 fns=HeapSelection::heapify,peek_mut,sift_down size=k=2 dom=any-i8
heapify!(c04_heapify_k2, 2, 6);
// @vp name=c04_heapify_k3 prop=C04 tier=quick t=480 fns=HeapSelection::heapify,peek_mut,sift_down size=k=3 dom=any-i8
heapify!(c04_heapify_k3, 3, 7);
// @vp name=c04_heapify_k4 prop=C04 tier=quick t=480 fns=HeapSelection::heapify,peek_mut,sift_down size=k=4 dom=any-i8
heapify!(c04_heapify_k4, 4, 8);
// @vp name=c04_heapify_k5 prop=C04 tier=thorough t=1800 fns=HeapSelection::heapify,peek_mut,sift_down size=k=5 dom=any-i8
heapify!(c04_heapify_k5, 5, 9);

// ---------------------------------------------------------------------------------------------
// exhaustive scan: exactly k results, true index / distance / point, every returned distance <= every other
// ---------------------------------------------------------------------------------------------
macro_rules! linear_find {
    ($name:ident, $n:expr, $k:expr, $unw:expr) => {
        vp_proof_traps! {
            #[cfg_attr(kani, kani::unwind($unw))]
            fn $name() {
                const N: usize = $n;
                const K: usize = $k;
                let mut d = [0i32; N];
                for t in 0..N {
                    d[t] = lat(-4, 4);
                }
                let q = lat(-4, 4);
                let s = match LinearKNNSearch::new(d.to_vec(), AbsD) {
                    Ok(s) => s,
                    Err(_) => vp_fail!("C04:linear-new-failed"),
                };
                let r = match s.find(&q, K) {
                    Ok(r) => r,
                    Err(_) => vp_fail!("C04:linear-find-failed-on-valid-k"),
                };
                vp_assert!(r.len() == K, "C04:linear-find-returns-k");
                let mut inr = [false; N];
                for e in 0..K {
                    let (idx, dist, pt) = (r[e].0, r[e].1, *r[e].2);
                    vp_assert!(idx < N, "C04:linear-find-index-in-range");
                    vp_assert!(!inr[idx], "C04:linear-find-distinct-indices");
                    inr[idx] = true;
                    vp_assert!(pt == d[idx], "C04:linear-find-carries-true-point");
                    vp_assert!(dist == (d[idx] - q).abs() as f64, "C04:linear-find-carries-true-distance");
                }
                for i in 0..N {
                    for j in 0..N {
                        if inr[i] && !inr[j] {
                            vp_assert!((d[i] - q).abs() <= (d[j] - q).abs(), "C04:linear-find-k-smallest");
                        }
                    }
                }
                core::mem::forget(r);
                vp_reached!();
            }
        }
    };
}
// @vp name=c04_linear_find_n1_k1 prop=C04 tier=quick t=300 fns=LinearKNNSearch::new,find,HeapSelection::* size=n=1,k=1 dom=lattice(-4..4),1-D-abs-distance stubs=traps,no_format
linear_find!(c04_linear_find_n1_k1, 1, 1, 5);
// @vp name=c04_linear_find_n2_k1 prop=C04 tier=quick t=480 fns=LinearKNNSearch::new,find,HeapSelection::* size=n=2,k=1 dom=lattice(-4..4),1-D-abs-distance stubs=traps,no_format
linear_find!(c04_linear_find_n2_k1, 2, 1, 5);
// @vp name=c04_linear_find_n2_k2 prop=C04 tier=quick t=480 fns=LinearKNNSearch::new,find,HeapSelection::* size=n=2,k=2 dom=lattice(-4..4),1-D-abs-distance stubs=traps,no_format
linear_find!(c04_linear_find_n2_k2, 2, 2, 5);
// @vp name=c04_linear_find_n3_k1 prop=C04 tier=quick t=480 fns=LinearKNNSearch::new,find,HeapSelection::* size=n=3,k=1 dom=lattice(-4..4),1-D-abs-distance stubs=traps,no_format
linear_find!(c04_linear_find_n3_k1, 3, 1, 6);
// @vp name=c04_linear_find_n3_k2 prop=C04 tier=quick t=480 fns=LinearKNNSearch::new,find,HeapSelection::* size=n=3,k=2 dom=lattice(-4..4),1-D-abs-distance stubs=traps,no_format
linear_find!(c04_linear_find_n3_k2, 3, 2, 6);
// @vp name=c04_linear_find_n3_k3 prop=C04 tier=thorough t=2400 fns=LinearKNNSearch::new,find,HeapSelection::* size=n=3,k=3 dom=lattice(-4..4),1-D-abs-distance stubs=traps,no_format
linear_find!(c04_linear_find_n3_k3, 3, 3, 6);
// @vp name=c04_linear_find_n4_k2 prop=C04 tier=thorough t=3000 fns=LinearKNNSearch::new,find,HeapSelection::* size=n=4,k=2 dom=lattice(-4..4),1-D-abs-distance stubs=traps,no_format
linear_find!(c04_linear_find_n4_k2, 4, 2, 7);
// @vp name=c04_linear_find_n4_k3 prop=C04 tier=thorough t=3000 fns=LinearKNNSearch::new,find,HeapSelection::* size=n=4,k=3 dom=lattice(-4..4),1-D-abs-distance stubs=traps,no_format
linear_find!(c04_linear_find_n4_k3, 4, 3, 7);
// @vp name=c04_linear_find_n4_k4 prop=C04 tier=thorough t=3000 fns=LinearKNNSearch::new,find,HeapSelection::* size=n=4,k=4 dom=lattice(-4..4),1-D-abs-distance stubs=traps,no_format
linear_find!(c04_linear_find_n4_k4, 4, 4, 7);

// 2-D points (Vec<f64>) with the library's Manhattan metric
// @vp name=c04_linear_find_2d_n3_k2 prop=C04 tier=thorough t=2400 fns=LinearKNNSearch::new,find,Manhattan::distance size=n=3,k=2,d=2 dom=lattice(-2..2),Manhattan stubs=traps,no_format
vp_proof_traps! {
    #[cfg_attr(kani, kani::unwind(6))]
    fn c04_linear_find_2d_n3_k2() {
        let mut pi = [[0i32; 2]; 3];
        let mut pts: Vec<Vec<f64>> = Vec::new();
        for t in 0..3 {
            let (a, af) = lat64(-2, 2);
            let (b, bf) = lat64(-2, 2);
            pi[t] = [a, b];
            pts.push(vec![af, bf]);
        }
        let (qa, qaf) = lat64(-2, 2);
        let (qb, qbf) = lat64(-2, 2);
        let q = vec![qaf, qbf];
        let s = match LinearKNNSearch::new(pts, Manhattan {}) {
            Ok(s) => s,
            Err(_) => vp_fail!("C04:linear-new-failed"),
        };
        let r = match s.find(&q, 2) {
            Ok(r) => r,
            Err(_) => vp_fail!("C04:linear-find-failed-on-valid-k"),
        };
        vp_assert!(r.len() == 2, "C04:linear-find-returns-k");
        let dist = |t: usize| (pi[t][0] - qa).abs() + (pi[t][1] - qb).abs();
        let mut inr = [false; 3];
        for e in 0..2 {
            let idx = r[e].0;
            vp_assert!(idx < 3 && !inr[idx], "C04:linear-find-distinct-indices");
            inr[idx] = true;
            vp_assert!(r[e].1 == dist(idx) as f64, "C04:linear-find-carries-true-distance");
            vp_assert!(r[e].2[0] == pi[idx][0] as f64 && r[e].2[1] == pi[idx][1] as f64, "C04:linear-find-carries-true-point");
        }
        for i in 0..3 {
            for j in 0..3 {
                if inr[i] && !inr[j] {
                    vp_assert!(dist(i) <= dist(j), "C04:linear-find-k-smallest");
                }
            }
        }
        core::mem::forget(r);
        vp_reached!();
    }
}

macro_rules! linear_radius {
    ($name:ident, $n:expr, $unw:expr) => {
        vp_proof_traps! {
            #[cfg_attr(kani, kani::unwind($unw))]
            fn $name() {
                const N: usize = $n;
                let mut d = [0i32; N];
                for t in 0..N {
                    d[t] = lat(-4, 4);
                }
                let q = lat(-4, 4);
                // radius on the half-integer lattice 1/2, 1, 3/2, ... so that d == r occurs
                let r2 = lat(1, 12);
                let radius = r2 as f64 / 2.0;
                let s = match LinearKNNSearch::new(d.to_vec(), AbsD) {
                    Ok(s) => s,
                    Err(_) => vp_fail!("C04:linear-new-failed"),
                };
                let r = match s.find_radius(&q, radius) {
                    Ok(r) => r,
                    Err(_) => vp_fail!("C04:linear-find_radius-failed-on-valid-radius"),
                };
                let mut inr = [false; N];
                let mut cnt = 0usize;
                for t in 0..N {
                    if 2 * (d[t] - q).abs() <= r2 {
                        cnt += 1;
                    }
                }
                vp_assert!(r.len() == cnt, "C04:radius-returns-exactly-the-points-within-r");
                for e in 0..N {
                    if e < cnt {
                        let idx = r[e].0;
                        vp_assert!(idx < N && !inr[idx], "C04:radius-distinct-indices");
                        inr[idx] = true;
                        vp_assert!(2 * (d[idx] - q).abs() <= r2, "C04:radius-only-points-within-r");
                        vp_assert!(r[e].1 == (d[idx] - q).abs() as f64 && *r[e].2 == d[idx], "C04:radius-carries-true-distance-and-point");
                    }
                }
                core::mem::forget(r);
                vp_reached!();
            }
        }
    };
}
// @vp name=c04_linear_radius_n2 prop=C04 tier=quick t=480 fns=LinearKNNSearch::find_radius size=n=2 dom=lattice(-4..4),radius-half-integers stubs=traps,no_format
linear_radius!(c04_linear_radius_n2, 2, 5);
// @vp name=c04_linear_radius_n3 prop=C04 tier=thorough t=2400 fns=LinearKNNSearch::find_radius size=n=3 dom=lattice(-4..4),radius-half-integers stubs=traps,no_format
linear_radius!(c04_linear_radius_n3, 3, 6);
// @vp name=c04_linear_radius_n4 prop=C04 tier=thorough t=2400 fns=LinearKNNSearch::find_radius size=n=4 dom=lattice(-4..4),radius-half-integers stubs=traps,no_format
linear_radius!(c04_linear_radius_n4, 4, 7);

// error cases: k = 0, k > n, r <= 0 are reported as errors (no panic)
// @vp name=c04_linear_errors prop=C04 tier=quick t=480 fns=LinearKNNSearch::find,find_radius size=n=2 dom=k-in{0,3,4},r<=0 stubs=no_format
vp_proof_nofmt! {
    #[cfg_attr(kani, kani::unwind(6))]
    fn c04_linear_errors() {
        let d = [lat(-4, 4), lat(-4, 4)];
        let q = lat(-4, 4);
        let s = match LinearKNNSearch::new(d.to_vec(), AbsD) {
            Ok(s) => s,
            Err(e) => {
                core::mem::forget(e);
                vp_fail!("C04:linear-new-failed")
            }
        };
        let which = anyu(0, 3);
        let bad = match which {
            0 => s.find(&q, 0).is_err(),
            1 => s.find(&q, 3).is_err(),
            2 => s.find(&q, 4).is_err(),
            _ => {
                let r: f64 = kani::any();
                kani::assume(r <= 0.0);
                s.find_radius(&q, r).is_err()
            }
        };
        vp_assert!(bad, "C04:invalid-k-or-radius-is-an-error");
        vp_reached!();
    }
}

// weights: uniform -> all ones; distance -> 1/d, or the indicator of exact matches if any distance is zero
macro_rules! weights {
    ($name:ident, $n:expr) => {
        vp_proof! {
            #[cfg_attr(kani, kani::unwind(7))]
            fn $name() {
                const N: usize = $n;
                // distances k/2, k in 0..=8 (zero included: exact matches)
                let mut d = [0f64; N];
                for t in 0..N {
                    d[t] = lat(0, 8) as f64 / 2.0;
                }
                let u = verif_calc_weights(&KNNWeightFunction::Uniform, d.to_vec());
                let w = verif_calc_weights(&KNNWeightFunction::Distance, d.to_vec());
                vp_assert!(u.len() == N && w.len() == N, "C04:weights-length");
                let mut anyzero = false;
                for t in 0..N {
                    vp_assert!(u[t] == 1.0, "C04:uniform-weights-are-one");
                    if d[t] == 0.0 {
                        anyzero = true;
                    }
                }
                for t in 0..N {
                    if anyzero {
                        vp_assert!(w[t] == if d[t] == 0.0 { 1.0 } else { 0.0 }, "C04:exact-match-takes-all-weight");
                    } else {
                        vp_assert!(same64(w[t], 1.0 / d[t]), "C04:inverse-distance-weight");
                    }
                }
                vp_reached!();
            }
        }
    };
}
// @vp name=c04_weights_n2 prop=C04 tier=quick t=300 fns=KNNWeightFunction::calc_weights size=n=2 dom=distances-k/2,k-in-0..8,f64
weights!(c04_weights_n2, 2);
// @vp name=c04_weights_n3 prop=C04 tier=quick t=480 fns=KNNWeightFunction::calc_weights size=n=3 dom=distances-k/2,k-in-0..8,f64
weights!(c04_weights_n3, 3);

// estimators reject invalid settings at fit time (errors, not panics)
// @vp name=c04_knn_fit_errors prop=C04 tier=quick t=480 fns=KNNRegressor::fit,KNNClassifier::fit size=2x1 dom=k-in{0,1},|y|!=n stubs=no_format
vp_proof_nofmt! {
    #[cfg_attr(kani, kani::unwind(6))]
    fn c04_knn_fit_errors() {
        let x = DenseMatrix::from_array(2, 1, &[lat64(-4, 4).1, lat64(-4, 4).1]);
        let y2 = vec![0f64, 1.0];
        let y3 = vec![0f64, 1.0, 0.0];
        let which = anyu(0, 3);
        let bad = match which {
            0 => KNNRegressor::fit(&x, &y2, KNNRegressorParameters::default().with_k(0).with_algorithm(KNNAlgorithmName::LinearSearch)).is_err(),
            1 => KNNRegressor::fit(&x, &y3, KNNRegressorParameters::default().with_k(1).with_algorithm(KNNAlgorithmName::LinearSearch)).is_err(),
            2 => KNNClassifier::fit(&x, &y2, KNNClassifierParameters::default().with_k(1).with_algorithm(KNNAlgorithmName::LinearSearch)).is_err(),
            _ => KNNClassifier::fit(&x, &y3, KNNClassifierParameters::default().with_k(2).with_algorithm(KNNAlgorithmName::LinearSearch)).is_err(),
        };
        vp_assert!(bad, "C04:knn-fit-invalid-settings-is-an-error");
        vp_reached!();
    }
}

// cover tree on a single point: construction and a k = 1 query succeed and return that point.
// `ln` (used for the scale computation) is replaced by a sign-faithful surrogate: NaN below 0, -inf at 0, x - 1 above.
pub fn ln_surrogate(x: f64) -> f64 {
    if x < 0.0 {
        f64::NAN
    } else if x == 0.0 {
        f64::NEG_INFINITY
    } else {
        x - 1.0
    }
}
// @vp name=c04_cover_tree_single_point prop=C04 tier=thorough t=1800 fns=CoverTree::new,build_cover_tree,get_scale,CoverTree::find,find_radius size=n=1 dom=lattice(-4..4) stubs=ln_surrogate,no_format
#[cfg_attr(kani, kani::proof)]
#[cfg_attr(kani, kani::unwind(5))]
#[cfg_attr(kani, kani::stub(f64::ln, crate::c04_neighbours::ln_surrogate))]
#[cfg_attr(kani, kani::stub(std::fmt::format, crate::common::no_format))]
pub fn c04_cover_tree_single_point() {
    let p = lat(-4, 4);
    let q = lat(-4, 4);
    let t = match CoverTree::new(vec![p], AbsD) {
        Ok(t) => t,
        Err(e) => {
            core::mem::forget(e);
            vp_fail!("C04:cover-tree-single-point-construction-failed")
        }
    };
    match t.find(&q, 1) {
        Ok(r) => {
            vp_assert!(r.len() == 1, "C04:cover-tree-single-point-find-returns-1");
            vp_assert!(r[0].0 == 0 && *r[0].2 == p && r[0].1 == (p - q).abs() as f64, "C04:cover-tree-single-point-find-returns-the-point");
            core::mem::forget(r);
        }
        Err(e) => {
            core::mem::forget(e);
            vp_fail!("C04:cover-tree-single-point-find-failed")
        }
    }
    vp_assert!(t.find(&q, 0).is_err() && t.find(&q, 2).is_err(), "C04:cover-tree-invalid-k-is-an-error");
    core::mem::forget(t);
    vp_reached!();
}

// NOTE: two identical points (CoverTree::new(vec![p, p]) + find) was tried: the recursive batch_insert does not finish in symbolic
// execution.  Natively this input overflows `max_scale - 1` at i64::MIN in debug builds (see DESIGN 10.3); not decidable here.

// construction alone (quick tier): succeeds for a single point and for two identical points
macro_rules! cover_tree_builds {
    ($name:ident, $pts:expr) => {
        #[cfg_attr(kani, kani::proof)]
        #[cfg_attr(kani, kani::unwind(6))]
        #[cfg_attr(kani, kani::stub(f64::ln, crate::c04_neighbours::ln_surrogate))]
        #[cfg_attr(kani, kani::stub(std::fmt::format, crate::common::no_format))]
        pub fn $name() {
            let p = lat(-4, 4);
            let pts: Vec<i32> = ($pts)(p);
            match CoverTree::new(pts, AbsD) {
                Ok(t) => core::mem::forget(t),
                Err(e) => {
                    core::mem::forget(e);
                    vp_fail!("C04:cover-tree-construction-failed")
                }
            };
            vp_reached!();
        }
    };
}
// @vp name=c04_cover_tree_builds_single prop=C04 tier=quick t=480 fns=CoverTree::new,build_cover_tree,get_scale size=n=1 dom=lattice(-4..4) stubs=ln_surrogate,no_format
cover_tree_builds!(c04_cover_tree_builds_single, |p: i32| vec![p]);

// NOTE: KNNRegressor::{fit, predict} over the exhaustive scan was tried once more at the smallest sizes (n = 2, k = 1 and k = 2,
// 1-D lattice, both weightings, oracle = weighted mean over some k-nearest set): not finished in 25 min.  The estimators'
// aggregation therefore stays outside the claim; its ingredients (scan, selection structure, weights) are decided separately.
