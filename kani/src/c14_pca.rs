//! C14 — PCA on a single column (the only shape whose SVD sweep is bounded): centring / projection bookkeeping.
//! Orthonormality, ordering and optimality for p >= 2 and all of truncated SVD are outside the claim (DESIGN 6/C14).
use crate::common::*;
use smartcore::decomposition::pca::{PCAParameters, PCA};

const E32: f32 = f32::EPSILON;

macro_rules! pca_proof {
    ($(#[$m:meta])* fn $name:ident() $body:block) => {
        #[cfg_attr(kani, kani::proof)]
        #[cfg_attr(kani, kani::stub(smartcore::error::Failed::because, crate::common::trap_because))]
        #[cfg_attr(kani, kani::stub(smartcore::error::Failed::fit, crate::common::trap_fit))]
        #[cfg_attr(kani, kani::stub(smartcore::error::Failed::predict, crate::common::trap_predict))]
        #[cfg_attr(kani, kani::stub(smartcore::error::Failed::transform, crate::common::trap_transform))]
        #[cfg_attr(kani, kani::stub(std::fmt::format, crate::common::no_format))]
        #[cfg_attr(kani, kani::stub(f32::hypot, crate::common::hyp32))]
        $(#[$m])*
        pub fn $name() $body
    };
}

macro_rules! pca_col {
    ($name:ident, $n:expr, $unw:expr, $tol:expr) => {
        pca_proof! {
            #[cfg_attr(kani, kani::unwind($unw))]
            fn $name() {
                const N: usize = $n;
                let mut xi = [0i32; N];
                let mut x = [0f32; N];
                let mut sx = 0i32;
                for t in 0..N {
                    let (a, b) = lat32(-4, 4);
                    xi[t] = a;
                    x[t] = b;
                    sx += a;
                }
                // non-constant column
                let mut nonconst = false;
                for t in 0..N {
                    if xi[t] != xi[0] {
                        nonconst = true;
                    }
                }
                kani::assume(nonconst);
                let xm = DenseMatrix::from_array(N, 1, &x);
                let p = match PCA::fit(&xm, PCAParameters::default().with_n_components(1)) {
                    Ok(p) => p,
                    Err(_) => vp_fail!("C14:pca-fit-failed"),
                };
                let comp = p.components();
                vp_assert!(comp.shape() == (1, 1), "C14:pca-components-shape");
                let v = comp.get(0, 0);
                vp_assert!((v.abs() - 1.0).abs() <= 16.0 * E32, "C14:pca-component-has-unit-norm");
                let t = match p.transform(&xm) {
                    Ok(t) => t,
                    Err(_) => vp_fail!("C14:pca-transform-failed"),
                };
                vp_assert!(t.shape() == (N, 1), "C14:pca-transform-shape");
                let mut ts = 0f32;
                for r in 0..N {
                    // N * (x - mean) = N x - sum x, in integers
                    let want = (N as i32 * xi[r] - sx) as f32 / N as f32;
                    vp_assert!((t.get(r, 0) - v * want).abs() <= $tol, "C14:pca-transform-is-centred-projection");
                    ts += t.get(r, 0);
                }
                vp_assert!(ts.abs() <= $tol * N as f32, "C14:pca-transformed-training-data-has-zero-mean");
                // row-wise affine map: transforming a stack of rows equals stacking the transforms
                let (_, q0) = lat32(-4, 4);
                let (_, q1) = lat32(-4, 4);
                let both = match p.transform(&DenseMatrix::from_array(2, 1, &[q0, q1])) {
                    Ok(t) => t,
                    Err(_) => vp_fail!("C14:pca-transform-failed"),
                };
                let one0 = match p.transform(&DenseMatrix::from_array(1, 1, &[q0])) {
                    Ok(t) => t,
                    Err(_) => vp_fail!("C14:pca-transform-failed"),
                };
                let one1 = match p.transform(&DenseMatrix::from_array(1, 1, &[q1])) {
                    Ok(t) => t,
                    Err(_) => vp_fail!("C14:pca-transform-failed"),
                };
                vp_assert!(same32(both.get(0, 0), one0.get(0, 0)) && same32(both.get(1, 0), one1.get(0, 0)), "C14:pca-transform-is-row-wise");
                vp_reached!();
            }
        }
    };
}
// @vp name=c14_pca_col_n2 prop=C14 tier=quick t=480 fns=PCA::fit,PCA::transform,svd_mut,column_mean,matmul size=n=2,p=1 dom=lattice(-4..4),non-constant,f32 stubs=traps,no_format,hyp32
pca_col!(c14_pca_col_n2, 2, 6, 1e-5);
// @vp name=c14_pca_col_n3 prop=C14 tier=quick t=480 fns=PCA::fit,PCA::transform,svd_mut,column_mean,matmul size=n=3,p=1 dom=lattice(-4..4),non-constant,f32 stubs=traps,no_format,hyp32
pca_col!(c14_pca_col_n3, 3, 7, 1e-5);
// @vp name=c14_pca_col_n4 prop=C14 tier=thorough t=3600 fns=PCA::fit,PCA::transform,svd_mut,column_mean,matmul size=n=4,p=1 dom=lattice(-4..4),non-constant,f32 stubs=traps,no_format,hyp32
pca_col!(c14_pca_col_n4, 4, 8, 1e-5);

// correlation mode with one column (covariance / EVD path on a 1x1 matrix): the projection is +-1/sd, the transformed training
// data are the z-scores +-(x - mean)/sd and have zero mean
// @vp name=c14_pca_col_n2_correlation prop=C14 tier=quick t=480 fns=PCA::fit,PCA::transform,evd size=n=2,p=1 dom=lattice(-4..4),non-constant,correlation-matrix,f32 stubs=traps,no_format,hyp32
pca_proof! {
    #[cfg_attr(kani, kani::unwind(6))]
    fn c14_pca_col_n2_correlation() {
        let (a, af) = lat32(-4, 4);
        let (b, bf) = lat32(-4, 4);
        kani::assume(a != b);
        let xm = DenseMatrix::from_array(2, 1, &[af, bf]);
        let p = match PCA::fit(&xm, PCAParameters::default().with_n_components(1).with_use_correlation_matrix(true)) {
            Ok(p) => p,
            Err(_) => vp_fail!("C14:pca-fit-failed"),
        };
        let t = match p.transform(&xm) {
            Ok(t) => t,
            Err(_) => vp_fail!("C14:pca-transform-failed"),
        };
        // two points: z-scores are +1 and -1 (population standard deviation |a-b|/2)
        vp_assert!(t.shape() == (2, 1), "C14:pca-transform-shape");
        vp_assert!((t.get(0, 0).abs() - 1.0).abs() <= 1e-4 && (t.get(1, 0).abs() - 1.0).abs() <= 1e-4, "C14:pca-correlation-scores-are-z-scores");
        vp_assert!((t.get(0, 0) + t.get(1, 0)).abs() <= 1e-4, "C14:pca-transformed-training-data-has-zero-mean");
        vp_reached!();
    }
}

// invalid settings are errors: more components than columns; transform of a matrix with the wrong number of columns
// @vp name=c14_pca_errors prop=C14 tier=quick t=480 fns=PCA::fit,PCA::transform size=2x1 dom=lattice stubs=no_format,hyp32
#[cfg_attr(kani, kani::proof)]
#[cfg_attr(kani, kani::unwind(6))]
#[cfg_attr(kani, kani::stub(std::fmt::format, crate::common::no_format))]
#[cfg_attr(kani, kani::stub(f32::hypot, crate::common::hyp32))]
pub fn c14_pca_errors() {
    let xm = DenseMatrix::from_array(2, 1, &[lat32(-4, 4).1, lat32(-4, 4).1]);
    vp_assert!(PCA::fit(&xm, PCAParameters::default().with_n_components(2)).is_err(), "C14:pca-too-many-components-is-an-error");
    vp_reached!();
}
