//! C07 — ridge / least squares return the minimiser of their objective (smallest sizes);
//! C08 — Lasso / elastic net report invalid settings as errors before entering the optimiser.
use crate::common::*;
use smartcore::linear::elastic_net::{ElasticNet, ElasticNetParameters};
use smartcore::linear::lasso::{Lasso, LassoParameters};
use smartcore::linear::linear_regression::{LinearRegression, LinearRegressionParameters, LinearRegressionSolverName};
use smartcore::linear::ridge_regression::{RidgeRegression, RidgeRegressionParameters, RidgeRegressionSolverName};

const E32: f32 = f32::EPSILON;

macro_rules! lin_proof {
    ($(#[$m:meta])* fn $name:ident() $body:block) => {
        #[cfg_attr(kani, kani::proof)]
        #[cfg_attr(kani, kani::stub(smartcore::error::Failed::because, crate::common::trap_because))]
        #[cfg_attr(kani, kani::stub(smartcore::error::Failed::fit, crate::common::trap_fit))]
        #[cfg_attr(kani, kani::stub(smartcore::error::Failed::predict, crate::common::trap_predict))]
        #[cfg_attr(kani, kani::stub(smartcore::error::Failed::transform, crate::common::trap_transform))]
        #[cfg_attr(kani, kani::stub(std::fmt::format, crate::common::no_format))]
        #[cfg_attr(kani, kani::stub(f32::hypot, crate::common::hyp32))]
        #[cfg_attr(kani, kani::stub(f32::powi, crate::common::powi32))]
        $(#[$m])*
        pub fn $name() $body
    };
}

// ---------------------------------------------------------------------------------------------
// C07 ridge, p = 1, no normalisation: b = 0 exactly and w (sum x^2 + alpha) = sum x y  (gradient of the objective vanishes)
// ---------------------------------------------------------------------------------------------
macro_rules! ridge_p1 {
    ($name:ident, $n:expr, $unw:expr) => {
        ridge_p1!($name, $n, $unw, RidgeRegressionSolverName::Cholesky);
    };
    ($name:ident, $n:expr, $unw:expr, $solver:expr) => {
        lin_proof! {
            #[cfg_attr(kani, kani::unwind($unw))]
            fn $name() {
                const N: usize = $n;
                let mut xi = [0i32; N];
                let mut yi = [0i32; N];
                let mut x = [0f32; N];
                let mut y = vec![0f32; N];
                for t in 0..N {
                    let (a, b) = lat32(-3, 3);
                    xi[t] = a;
                    x[t] = b;
                    let (a, b) = lat32(-4, 4);
                    yi[t] = a;
                    y[t] = b;
                }
                // alpha in {1/2, 1, 2}
                let a2 = match anyu(0, 2) {
                    0 => 1,
                    1 => 2,
                    _ => 4,
                };
                let alpha = a2 as f32 / 2.0;
                let xm = DenseMatrix::from_array(N, 1, &x);
                let params = RidgeRegressionParameters { solver: $solver, alpha, normalize: false };
                let m = match RidgeRegression::fit(&xm, &y, params) {
                    Ok(m) => m,
                    Err(_) => vp_fail!("C07:ridge-fit-failed"),
                };
                let w = m.coefficients().get(0, 0);
                let mut sxx2 = a2; // 2 * (sum x^2 + alpha)
                let mut sxy = 0i32;
                for t in 0..N {
                    sxx2 += 2 * xi[t] * xi[t];
                    sxy += xi[t] * yi[t];
                }
                vp_assert!(m.coefficients().shape() == (1, 1), "C07:ridge-coefficient-shape");
                vp_assert!(m.intercept() == 0.0, "C07:ridge-no-normalisation-intercept-is-zero");
                vp_assert!((w * sxx2 as f32 - 2.0 * sxy as f32).abs() <= 64.0 * E32 * (1.0 + 2.0 * (sxy as f32).abs()), "C07:ridge-gradient-vanishes");
                // predict = X w + b, row by row
                let (q0i, q0) = lat32(-3, 3);
                let (q1i, q1) = lat32(-3, 3);
                let qm = DenseMatrix::from_array(2, 1, &[q0, q1]);
                match m.predict(&qm) {
                    Ok(p) => {
                        vp_assert!(p.len() == 2, "C07:ridge-predict-one-value-per-row");
                        vp_assert!(p[0] == q0 * w + m.intercept() && p[1] == q1 * w + m.intercept(), "C07:ridge-predict-is-xw-plus-b");
                    }
                    Err(_) => vp_fail!("C07:ridge-predict-failed"),
                }
                let _ = (q0i, q1i);
                vp_reached!();
            }
        }
    };
}
// @vp name=c07_ridge_p1_n2 prop=C07 tier=quick t=480 fns=RidgeRegression::fit,predict,cholesky_solve_mut,matmul,transpose size=n=2,p=1 dom=x-lattice(-3..3),y-lattice(-4..4),alpha{.5,1,2},no-normalisation,f32 stubs=traps,no_format
ridge_p1!(c07_ridge_p1_n2, 2, 6);
// @vp name=c07_ridge_p1_n3 prop=C07 tier=quick t=480 fns=RidgeRegression::fit,predict,cholesky_solve_mut,matmul,transpose size=n=3,p=1 dom=x-lattice(-3..3),y-lattice(-4..4),alpha{.5,1,2},no-normalisation,f32 stubs=traps,no_format
ridge_p1!(c07_ridge_p1_n3, 3, 7);

// the SVD solver on the same 1x1 system satisfies the same optimality condition (hence agrees with Cholesky)
// @vp name=c07_ridge_p1_n2_svd prop=C07 tier=quick t=480 fns=RidgeRegression::fit,predict,svd_solve_mut,matmul,transpose size=n=2,p=1 dom=x-lattice(-3..3),y-lattice(-4..4),alpha{.5,1,2},no-normalisation,SVD-solver,f32 stubs=traps,no_format,hyp32
ridge_p1!(c07_ridge_p1_n2_svd, 2, 6, RidgeRegressionSolverName::SVD);

// ridge with normalisation, p = 1: the back-transformed (w, b) satisfy the stationarity conditions of
// ||y - b - z w_z||^2 + alpha w_z^2 with z = (x - mu)/sigma: residuals sum to zero and w (n + alpha) sigma = sum (x - mu) y / sigma ... checked
// in the equivalent integer form  w * (n*S + alpha*S) = n * C   with S = n*sum x^2 - (sum x)^2, C = n*sum xy - sum x sum y  (population sigma)
// @vp name=c07_ridge_p1_n3_normalized prop=C07 tier=thorough t=3600 fns=RidgeRegression::fit,rescale_x,MatrixStats::mean,std,scale_mut size=n=3,p=1 dom=x-lattice(-3..3)non-constant,y-lattice(-4..4),alpha=1,normalise,f32 stubs=traps,no_format,powi32
lin_proof! {
    #[cfg_attr(kani, kani::unwind(7))]
    fn c07_ridge_p1_n3_normalized() {
        let mut xi = [0i32; 3];
        let mut yi = [0i32; 3];
        let mut x = [0f32; 3];
        let mut y = vec![0f32; 3];
        for t in 0..3 {
            let (a, b) = lat32(-3, 3);
            xi[t] = a;
            x[t] = b;
            let (a, b) = lat32(-4, 4);
            yi[t] = a;
            y[t] = b;
        }
        let sx = xi[0] + xi[1] + xi[2];
        let sy = yi[0] + yi[1] + yi[2];
        let sxx = xi[0] * xi[0] + xi[1] * xi[1] + xi[2] * xi[2];
        let sxy = xi[0] * yi[0] + xi[1] * yi[1] + xi[2] * yi[2];
        let s = 3 * sxx - sx * sx; // n^2 * population variance
        kani::assume(s > 0);
        let c = 3 * sxy - sx * sy;
        let xm = DenseMatrix::from_array(3, 1, &x);
        let params = RidgeRegressionParameters { solver: RidgeRegressionSolverName::Cholesky, alpha: 1.0f32, normalize: true };
        let m = match RidgeRegression::fit(&xm, &y, params) {
            Ok(m) => m,
            Err(_) => vp_fail!("C07:ridge-fit-failed"),
        };
        let w = m.coefficients().get(0, 0);
        let b = m.intercept();
        // w_z = sum z y / (n + alpha), w = w_z / sigma  =>  w * (n + alpha) * sigma^2 * n = C ... with sigma^2 = S/n^2:
        // w * (n + 1) * S / n = C   <=>   w * 4 * S = 3 * C
        vp_assert!((w * (4 * s) as f32 - (3 * c) as f32).abs() <= 1e-3 * (1.0 + (3 * c).abs() as f32), "C07:ridge-normalised-gradient-vanishes");
        // unpenalised intercept: b = mean(y) - w * mean(x)
        vp_assert!((3.0 * b - (sy as f32 - w * sx as f32)).abs() <= 1e-3, "C07:ridge-normalised-intercept");
        vp_reached!();
    }
}

// invalid shapes are reported as errors
// @vp name=c07_fit_shape_errors prop=C07 tier=quick t=480 fns=RidgeRegression::fit,LinearRegression::fit size=2x1-with-|y|=3,1x1,1x2 dom=lattice stubs=no_format
vp_proof_nofmt! {
    #[cfg_attr(kani, kani::unwind(6))]
    fn c07_fit_shape_errors() {
        let x21 = DenseMatrix::from_array(2, 1, &[lat64(-3, 3).1, lat64(-3, 3).1]);
        let x12 = DenseMatrix::from_array(1, 2, &[lat64(-3, 3).1, lat64(-3, 3).1]);
        let y3 = vec![0f64, 1.0, 2.0];
        let y1 = vec![1f64];
        let which = anyu(0, 2);
        let bad = match which {
            0 => RidgeRegression::fit(&x21, &y3, RidgeRegressionParameters::default()).is_err(),
            1 => RidgeRegression::fit(&x12, &y1, RidgeRegressionParameters::default()).is_err(),
            _ => LinearRegression::fit(&x21, &y3, LinearRegressionParameters { solver: LinearRegressionSolverName::QR }).is_err(),
        };
        vp_assert!(bad, "C07:invalid-shape-is-an-error");
        vp_reached!();
    }
}

// OLS p = 1, n = 2 through QR of [x 1]: exact interpolation; n = 3: residual orthogonal to x and to 1
macro_rules! ols_p1 {
    ($name:ident, $n:expr, $unw:expr) => {
        lin_proof! {
            #[cfg_attr(kani, kani::unwind($unw))]
            fn $name() {
                const N: usize = $n;
                let mut xi = [0i32; N];
                let mut yi = [0i32; N];
                let mut x = [0f32; N];
                let mut y = vec![0f32; N];
                for t in 0..N {
                    let (a, b) = lat32(-3, 3);
                    xi[t] = a;
                    x[t] = b;
                    let (a, b) = lat32(-3, 3);
                    yi[t] = a;
                    y[t] = b;
                }
                let mut sx = 0;
                let mut sy = 0;
                let mut sxx = 0;
                let mut sxy = 0;
                for t in 0..N {
                    sx += xi[t];
                    sy += yi[t];
                    sxx += xi[t] * xi[t];
                    sxy += xi[t] * yi[t];
                }
                let n = N as i32;
                let s = n * sxx - sx * sx;
                kani::assume(s > 0); // full column rank
                let xm = DenseMatrix::from_array(N, 1, &x);
                let m = match LinearRegression::fit(&xm, &y, LinearRegressionParameters { solver: LinearRegressionSolverName::QR }) {
                    Ok(m) => m,
                    Err(_) => vp_fail!("C07:ols-fit-failed"),
                };
                let w = m.coefficients().get(0, 0);
                let b = m.intercept();
                // normal equations: w * S = n sxy - sx sy ; n b = sy - w sx
                vp_assert!((w * s as f32 - (n * sxy - sx * sy) as f32).abs() <= 2e-3, "C07:ols-residual-orthogonal-to-x");
                vp_assert!((n as f32 * b - (sy as f32 - w * sx as f32)).abs() <= 2e-3, "C07:ols-residuals-sum-to-zero");
                vp_reached!();
            }
        }
    };
}
// @vp name=c07_ols_p1_n2 prop=C07 tier=thorough t=3600 fns=LinearRegression::fit,qr_solve_mut,h_stack size=n=2,p=1 dom=lattice(-3..3),f32 stubs=traps,no_format,hyp32
ols_p1!(c07_ols_p1_n2, 2, 6);
// @vp name=c07_ols_p1_n3 prop=C07 tier=thorough t=3600 fns=LinearRegression::fit,qr_solve_mut,h_stack size=n=3,p=1 dom=lattice(-3..3),f32 stubs=traps,no_format,hyp32
ols_p1!(c07_ols_p1_n3, 3, 7);

// ---------------------------------------------------------------------------------------------
// C08: invalid settings -> Err, and the optimiser is never entered
// ---------------------------------------------------------------------------------------------
use smartcore::verif_hooks::InteriorPointOptimizer;
pub fn trap_optimize<T: RealNumber, M: Matrix<T>>(
    _s: &mut InteriorPointOptimizer<T, M>,
    _x: &M,
    _y: &M::RowVector,
    _lambda: T,
    _max_iter: usize,
    _tol: T,
) -> Result<M, Failed> {
    // an assertion (not a bare panic) so that a concrete playback test is generated for it
    assert!(false, "VP:C08:reached-the-optimiser-with-invalid-settings");
    unreachable!()
}

macro_rules! lasso_proof {
    ($(#[$m:meta])* fn $name:ident() $body:block) => {
        #[cfg_attr(kani, kani::proof)]
        #[cfg_attr(kani, kani::stub(std::fmt::format, crate::common::no_format))]
        #[cfg_attr(kani, kani::stub(f64::powi, crate::common::powi64))]
        #[cfg_attr(kani, kani::stub(smartcore::linear::lasso_optimizer::InteriorPointOptimizer::optimize, crate::c07_c08_linear::trap_optimize))]
        $(#[$m])*
        pub fn $name() $body
    };
}

macro_rules! lasso_invalid {
    ($name:ident, $which:expr, $ylen:expr) => {
        lasso_proof! {
            #[cfg_attr(kani, kani::unwind(5))]
            fn $name() {
                let x = DenseMatrix::from_array(3, 1, &[1.0f64, 2.0, 4.0]);
                let mut alpha: f64 = 1.0;
                let mut tol: f64 = 1e-4;
                let mut max_iter: usize = 100;
                match $which {
                    0 => {
                        alpha = kani::any();
                        kani::assume(alpha < 0.0);
                    }
                    1 => {
                        tol = kani::any();
                        kani::assume(tol <= 0.0);
                    }
                    2 => {
                        max_iter = 0;
                    }
                    _ => {}
                }
                let y = vec![1.0f64; $ylen];
                let params = LassoParameters { alpha, normalize: kani::any(), tol, max_iter };
                vp_assert!(Lasso::fit(&x, &y, params).is_err(), "C08:lasso-invalid-setting-is-an-error");
                vp_reached!();
            }
        }
    };
}
// @vp name=c08_lasso_negative_alpha prop=C08 tier=quick t=480 fns=Lasso::fit size=3x1 dom=x-concrete,alpha-any-negative-f64,normalize-symbolic stubs=no_format,powi64,trap_optimize
lasso_invalid!(c08_lasso_negative_alpha, 0, 3);
// @vp name=c08_lasso_nonpositive_tol prop=C08 tier=quick t=480 fns=Lasso::fit size=3x1 dom=x-concrete,tol-any-f64<=0,normalize-symbolic stubs=no_format,powi64,trap_optimize
lasso_invalid!(c08_lasso_nonpositive_tol, 1, 3);
// @vp name=c08_lasso_zero_max_iter prop=C08 tier=quick t=480 fns=Lasso::fit size=3x1 dom=x-concrete,max_iter=0,normalize-symbolic stubs=no_format,powi64,trap_optimize
lasso_invalid!(c08_lasso_zero_max_iter, 2, 3);
// @vp name=c08_lasso_y_too_short prop=C08 tier=quick t=480 fns=Lasso::fit size=3x1,|y|=2 dom=x-concrete,normalize-symbolic stubs=no_format,powi64,trap_optimize
lasso_invalid!(c08_lasso_y_too_short, 3, 2);
// @vp name=c08_lasso_y_too_long prop=C08 tier=quick t=480 fns=Lasso::fit size=3x1,|y|=4 dom=x-concrete,normalize-symbolic stubs=no_format,powi64,trap_optimize
lasso_invalid!(c08_lasso_y_too_long, 3, 4);

// @vp name=c08_lasso_n_le_p prop=C08 tier=quick t=480 fns=Lasso::fit size=2x2,1x2 dom=x-lattice stubs=no_format,powi64,trap_optimize
lasso_proof! {
    #[cfg_attr(kani, kani::unwind(5))]
    fn c08_lasso_n_le_p() {
        let square: bool = kani::any();
        let r = if square {
            let x = DenseMatrix::from_array(2, 2, &[lat64(-3, 3).1, lat64(-3, 3).1, lat64(-3, 3).1, lat64(-3, 3).1]);
            Lasso::fit(&x, &vec![1.0f64, 2.0], LassoParameters::default()).is_err()
        } else {
            let x = DenseMatrix::from_array(1, 2, &[lat64(-3, 3).1, lat64(-3, 3).1]);
            Lasso::fit(&x, &vec![1.0f64], LassoParameters::default()).is_err()
        };
        vp_assert!(r, "C08:lasso-n-not-greater-than-p-is-an-error");
        vp_reached!();
    }
}

// constant column under normalisation.  Residual run: dyadic constants k/4 (all arithmetic exact) must be rejected.
// Witness runs of the known finding C08-constant-column-not-rejected: two concrete decimal constants whose naive variance is
// rounding noise - 0.3 (slightly positive, std = 3.7e-9 >> eps) and 0.1 (slightly negative, std = NaN).
macro_rules! lasso_const_col {
    ($name:ident, $c:expr) => {
        lasso_proof! {
            #[cfg_attr(kani, kani::unwind(5))]
            fn $name() {
                let c: f64 = $c;
                let x = DenseMatrix::from_array(3, 1, &[c, c, c]);
                let y = vec![1.0f64, 2.0, 3.0];
                let params = LassoParameters { alpha: 1.0, normalize: true, tol: 1e-4, max_iter: 10 };
                vp_assert!(Lasso::fit(&x, &y, params).is_err(), "C08:lasso-constant-column-under-normalisation-is-an-error");
                vp_reached!();
            }
        }
    };
}
// @vp name=c08_lasso_constant_column_lattice prop=C08 tier=quick t=480 fns=Lasso::fit,rescale_x,MatrixStats::mean,std size=3x1 dom=constant-column-c=k/4,k-8..8 stubs=no_format,powi64,trap_optimize
lasso_const_col!(c08_lasso_constant_column_lattice, lat64(-8, 8).1 / 4.0);
// @vp name=c08_lasso_constant_column_0_3 prop=C08 tier=thorough t=3000 fns=Lasso::fit,rescale_x,MatrixStats::mean,std size=3x1 dom=concrete-witness-c=0.3 stubs=no_format,powi64,trap_optimize kf=C08-constant-column-not-rejected hang=violation inputs=none
lasso_const_col!(c08_lasso_constant_column_0_3, 0.3);
// @vp name=c08_lasso_constant_column_0_1 prop=C08 tier=quick t=480 fns=Lasso::fit,rescale_x,MatrixStats::mean,std size=3x1 dom=concrete-witness-c=0.1 stubs=no_format,powi64,trap_optimize kf=C08-constant-column-not-rejected hang=violation inputs=none
lasso_const_col!(c08_lasso_constant_column_0_1, 0.1);

// elastic net: length mismatch is an error; valid settings do not panic before the optimiser
// @vp name=c08_elastic_net_guards prop=C08 tier=quick t=480 fns=ElasticNet::fit,augment_x_and_y size=3x1 dom=x-lattice,|y|=2 stubs=no_format
#[cfg_attr(kani, kani::proof)]
#[cfg_attr(kani, kani::unwind(5))]
#[cfg_attr(kani, kani::stub(std::fmt::format, crate::common::no_format))]
pub fn c08_elastic_net_guards() {
    let x = DenseMatrix::from_array(3, 1, &[lat64(-3, 3).1, lat64(-3, 3).1, lat64(-3, 3).1]);
    let y = vec![1.0f64, 2.0];
    vp_assert!(ElasticNet::fit(&x, &y, ElasticNetParameters::default()).is_err(), "C08:elastic-net-length-mismatch-is-an-error");
    vp_reached!();
}

// ---------------------------------------------------------------------------------------------
// C08: what Lasso / elastic net hand to the optimiser, and how they map its answer back (p = 1, no normalisation).
// The optimiser is replaced by a recorder that logs lambda and the design it receives and returns w = 1; the stated objectives
//   Lasso:        ||y - mean(y) - x w||^2 + n alpha |w|
//   elastic net:  ||y - mean(y) - x w||^2 + n alpha (1 - rho) w^2 + n alpha rho |w|
// require lambda = n alpha (Lasso) and, for the augmented formulation with gamma = 1/sqrt(1 + l2), lambda = l1 * gamma, design
// gamma * [x; sqrt(l2)], coefficient gamma * w, intercept mean(y).  Natively (replay: no stubs) the fitted coefficient is compared
// with the closed-form one-dimensional minimiser (soft threshold).
// ---------------------------------------------------------------------------------------------
pub fn rec_optimize<T: RealNumber, M: Matrix<T>>(
    _s: &mut InteriorPointOptimizer<T, M>,
    x: &M,
    y: &M::RowVector,
    lambda: T,
    _max_iter: usize,
    _tol: T,
) -> Result<M, Failed> {
    let (n, p) = x.shape();
    log64(lambda.to_f64().unwrap());
    log64(n as f64);
    log64(p as f64);
    log64(y.len() as f64);
    for i in 0..n {
        log64(x.get(i, 0).to_f64().unwrap());
    }
    Ok(M::ones(p, 1))
}

fn soft(c: f64, t: f64) -> f64 {
    if c > t {
        c - t
    } else if c < -t {
        c + t
    } else {
        0.0
    }
}

macro_rules! objective_weights {
    ($name:ident, $elastic:expr, $alpha:expr, $rho:expr) => {
        #[cfg_attr(kani, kani::proof)]
        #[cfg_attr(kani, kani::unwind(7))]
        #[cfg_attr(kani, kani::stub(std::fmt::format, crate::common::no_format))]
        #[cfg_attr(kani, kani::stub(smartcore::error::Failed::fit, crate::common::trap_fit))]
        #[cfg_attr(kani, kani::stub(smartcore::linear::lasso_optimizer::InteriorPointOptimizer::optimize, crate::c07_c08_linear::rec_optimize))]
        pub fn $name() {
            let mut xi = [0i32; 3];
            let mut yi = [0i32; 3];
            let mut x = [0f64; 3];
            let mut y = vec![0f64; 3];
            for t in 0..3 {
                let (a, b) = lat64(-3, 3);
                xi[t] = a;
                x[t] = b;
                let (a, b) = lat64(-4, 4);
                yi[t] = a;
                y[t] = b;
            }
            let sxx = (xi[0] * xi[0] + xi[1] * xi[1] + xi[2] * xi[2]) as f64;
            kani::assume(sxx > 0.0);
            let sy = (yi[0] + yi[1] + yi[2]) as f64;
            let alpha: f64 = $alpha;
            let rho: f64 = $rho;
            let xm = DenseMatrix::from_array(3, 1, &x);
            let (w, b) = if $elastic {
                let params = ElasticNetParameters { alpha, l1_ratio: rho, normalize: false, tol: 1e-6, max_iter: 1000 };
                match ElasticNet::fit(&xm, &y, params) {
                    Ok(m) => (m.coefficients().get(0, 0), m.intercept()),
                    Err(_) => vp_fail!("C08:elastic-net-fit-failed"),
                }
            } else {
                let params = LassoParameters { alpha, normalize: false, tol: 1e-6, max_iter: 1000 };
                match Lasso::fit(&xm, &y, params) {
                    Ok(m) => (m.coefficients().get(0, 0), m.intercept()),
                    Err(_) => vp_fail!("C08:lasso-fit-failed"),
                }
            };
            let l1 = if $elastic { 3.0 * alpha * rho } else { 3.0 * alpha };
            let l2 = if $elastic { 3.0 * alpha * (1.0 - rho) } else { 0.0 };
            vp_assert!((b - sy / 3.0).abs() <= 1e-12, "C08:intercept-is-mean-of-y-without-normalisation");
            if cfg!(vp_playback) {
                // closed-form minimiser for one feature: w = soft(sum x (y - mean), l1/2) / (sum x^2 + l2)
                let mut c = 0f64;
                for t in 0..3 {
                    c += x[t] * (y[t] - sy / 3.0);
                }
                let want = soft(c, l1 / 2.0) / (sxx + l2);
                vp_assert!((w - want).abs() <= 1e-3 * (1.0 + want.abs()), "C08:coefficient-minimises-the-stated-objective");
            } else {
                let g = 1.0 / (1.0 + l2).sqrt();
                let rows = if $elastic { 4 } else { 3 };
                vp_assert!(nlog64() == 4 + rows, "C08:optimiser-called-once-with-the-expected-design");
                vp_assert!((getlog64(0) - l1 * g).abs() <= 1e-12, "C08:l1-weight-handed-to-the-optimiser");
                vp_assert!(getlog64(1) == rows as f64 && getlog64(2) == 1.0 && getlog64(3) == rows as f64, "C08:design-shape-handed-to-the-optimiser");
                for t in 0..3 {
                    vp_assert!((getlog64(4 + t) - g * x[t]).abs() <= 1e-12, "C08:design-handed-to-the-optimiser");
                }
                if $elastic {
                    vp_assert!((getlog64(7) - g * l2.sqrt()).abs() <= 1e-12, "C08:ridge-padding-handed-to-the-optimiser");
                }
                // the recorder answers w = 1: the reported coefficient is gamma * 1
                vp_assert!((w - g).abs() <= 1e-12, "C08:coefficient-mapped-back");
            }
            vp_reached!();
        }
    };
}
// @vp name=c08_lasso_objective_weights prop=C08 tier=quick t=480 fns=Lasso::fit size=3x1 dom=x,y-lattice,alpha=0.5,no-normalisation stubs=rec_optimize,trap_fit,no_format
objective_weights!(c08_lasso_objective_weights, false, 0.5, 1.0);
// @vp name=c08_elastic_net_objective_weights prop=C08 tier=quick t=480 fns=ElasticNet::fit,augment_x_and_y size=3x1 dom=x,y-lattice,alpha=1,l1_ratio=0.5,no-normalisation stubs=rec_optimize,trap_fit,no_format
objective_weights!(c08_elastic_net_objective_weights, true, 1.0, 0.5);
// @vp name=c08_elastic_net_objective_weights_b prop=C08 tier=quick t=480 fns=ElasticNet::fit,augment_x_and_y size=3x1 dom=x,y-lattice,alpha=2,l1_ratio=0.25,no-normalisation stubs=rec_optimize,trap_fit,no_format
objective_weights!(c08_elastic_net_objective_weights_b, true, 2.0, 0.25);
