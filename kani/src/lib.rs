//! Kani proof harnesses deciding the properties in /verif/properties.jsonl on the
//! real `smartcore` crate in /repo (path dependency, feature `verif`).
//! See /verif/DESIGN.md.  Every harness is preceded by an `// @vp ...` annotation
//! line which the runner (/verif/vcheck) parses into its catalogue.
#![allow(dead_code, unused_imports, unused_macros, clippy::all)]

#[macro_use]
pub mod common;

#[cfg(kani)]
mod c17_distance;
#[cfg(kani)]
mod c18_onehot;
#[cfg(kani)]
mod c15_metrics;
#[cfg(kani)]
mod c03_move;
#[cfg(kani)]
mod c03_arith;
#[cfg(kani)]
mod c03_special;
#[cfg(kani)]
mod c16_split;
#[cfg(kani)]
mod c04_neighbours;
#[cfg(kani)]
mod c05_tree;
#[cfg(kani)]
mod c01_decomp;
#[cfg(kani)]
mod c10_svm;
#[cfg(kani)]
mod c12_kmeans;
#[cfg(kani)]
mod c07_c08_linear;
#[cfg(kani)]
mod c14_pca;
#[cfg(all(kani, feature = "backends"))]
mod c20_backends;

#[cfg(kani)]
mod playback_slot;
