//! C16 — data splitting never leaks: train_test_split and KFold::split over all permutations.
//! The random shuffle is replaced by an arbitrary permutation (stub `any_perm`): the schedule is a solver variable.
use crate::common::*;
use smartcore::model_selection::{train_test_split, BaseKFold, KFold};

macro_rules! rng_stubs {
    ($(#[$m:meta])* fn $name:ident() $body:block) => {
        #[cfg_attr(kani, kani::proof)]
        #[cfg_attr(kani, kani::stub(rand::thread_rng, crate::common::fake_thread_rng))]
        #[cfg_attr(kani, kani::stub(rand::seq::SliceRandom::shuffle, crate::common::any_perm))]
        #[cfg_attr(kani, kani::stub(std::fmt::format, crate::common::no_format))]
        $(#[$m])*
        pub fn $name() $body
    };
}

/// natively (replay) the shuffle is really random: repeat the check over many draws
fn repeats() -> usize {
    if cfg!(vp_playback) {
        3000
    } else {
        1
    }
}

macro_rules! tts {
    ($name:ident, $n:expr, $j:expr, $shuffle:expr, $unw:expr) => {
        tts!($name, $n, $j as f32 / 10.0f32, (($n) * ($j)) / 10, $shuffle, $unw);
    };
    ($name:ident, $n:expr, $ts:expr, $ntest:expr, $shuffle:expr, $unw:expr) => {
        rng_stubs! {
            #[cfg_attr(kani, kani::unwind($unw))]
            fn $name() {
                const N: usize = $n;
                // sizes are concrete per harness (DESIGN R1), values and the permutation are symbolic
                let ts: f32 = $ts;
                // expected number of test rows: integer part of n*test_size evaluated in single precision (given by the instantiation)
                let n_test: usize = $ntest;
                let v: [f64; N] = kani::any();
                let mut xa = [0f64; 2 * N];
                let mut y = vec![0f64; N];
                for i in 0..N {
                    xa[2 * i] = v[i];
                    xa[2 * i + 1] = i as f64;
                    y[i] = i as f64;
                }
                let x = DenseMatrix::from_array(N, 2, &xa);
                for _ in 0..repeats() {
                    let (xtr, xte, ytr, yte) = train_test_split(&x, &y, ts, $shuffle);
                    vp_assert!(xte.shape() == (n_test, 2) && yte.len() == n_test, "C16:tts-test-size");
                    vp_assert!(xtr.shape() == (N - n_test, 2) && ytr.len() == N - n_test, "C16:tts-train-size");
                    let mut seen = [0u8; N];
                    for i in 0..n_test {
                        let id = yte[i] as usize;
                        vp_assert!(id < N && yte[i] == id as f64, "C16:tts-target-is-a-row-id");
                        seen[id] += 1;
                        vp_assert!(xte.get(i, 1) == id as f64 && same64(xte.get(i, 0), v[id]), "C16:tts-target-attached-to-its-row");
                        if !$shuffle {
                            vp_assert!(id == i, "C16:tts-no-shuffle-test-is-leading-rows");
                        }
                    }
                    for i in 0..(N - n_test) {
                        let id = ytr[i] as usize;
                        vp_assert!(id < N && ytr[i] == id as f64, "C16:tts-target-is-a-row-id");
                        seen[id] += 1;
                        vp_assert!(xtr.get(i, 1) == id as f64 && same64(xtr.get(i, 0), v[id]), "C16:tts-target-attached-to-its-row");
                        if !$shuffle {
                            vp_assert!(id == n_test + i, "C16:tts-no-shuffle-train-is-the-rest-in-order");
                        }
                    }
                    for i in 0..N {
                        vp_assert!(seen[i] == 1, "C16:tts-disjoint-and-complete");
                    }
                }
                vp_reached!();
            }
        }
    };
}
// @vp name=c16_tts_n2_t05_shuffle prop=C16 tier=quick t=480 fns=train_test_split,BaseMatrix::take,Vec::take size=n=2,test_size=0.5 dom=x-any-f64-bits,permutation-symbolic stubs=fake_thread_rng,any_perm,no_format
tts!(c16_tts_n2_t05_shuffle, 2, 5, true, 5);
// @vp name=c16_tts_n2_t09_ordered prop=C16 tier=quick t=480 fns=train_test_split,BaseMatrix::take,Vec::take size=n=2,test_size=0.9 dom=x-any-f64-bits,no-shuffle stubs=fake_thread_rng,any_perm,no_format
tts!(c16_tts_n2_t09_ordered, 2, 9, false, 5);
// @vp name=c16_tts_n3_t04_shuffle prop=C16 tier=quick t=480 fns=train_test_split,BaseMatrix::take,Vec::take size=n=3,test_size=0.4 dom=x-any-f64-bits,permutation-symbolic stubs=fake_thread_rng,any_perm,no_format
tts!(c16_tts_n3_t04_shuffle, 3, 4, true, 6);
// @vp name=c16_tts_n3_t07_shuffle prop=C16 tier=quick t=480 fns=train_test_split,BaseMatrix::take,Vec::take size=n=3,test_size=0.7 dom=x-any-f64-bits,permutation-symbolic stubs=fake_thread_rng,any_perm,no_format
tts!(c16_tts_n3_t07_shuffle, 3, 7, true, 6);
// @vp name=c16_tts_n3_t07_ordered prop=C16 tier=quick t=480 fns=train_test_split,BaseMatrix::take,Vec::take size=n=3,test_size=0.7 dom=x-any-f64-bits,no-shuffle stubs=fake_thread_rng,any_perm,no_format
tts!(c16_tts_n3_t07_ordered, 3, 7, false, 6);
// @vp name=c16_tts_n4_t03_shuffle prop=C16 tier=quick t=480 fns=train_test_split,BaseMatrix::take,Vec::take size=n=4,test_size=0.3 dom=x-any-f64-bits,permutation-symbolic stubs=fake_thread_rng,any_perm,no_format
tts!(c16_tts_n4_t03_shuffle, 4, 3, true, 7);
// @vp name=c16_tts_n4_t05_shuffle prop=C16 tier=quick t=480 fns=train_test_split,BaseMatrix::take,Vec::take size=n=4,test_size=0.5 dom=x-any-f64-bits,permutation-symbolic stubs=fake_thread_rng,any_perm,no_format
tts!(c16_tts_n4_t05_shuffle, 4, 5, true, 7);
// @vp name=c16_tts_n4_t08_ordered prop=C16 tier=quick t=480 fns=train_test_split,BaseMatrix::take,Vec::take size=n=4,test_size=0.8 dom=x-any-f64-bits,no-shuffle stubs=fake_thread_rng,any_perm,no_format
tts!(c16_tts_n4_t08_ordered, 4, 8, false, 7);
// @vp name=c16_tts_n4_t10_shuffle prop=C16 tier=quick t=480 fns=train_test_split,BaseMatrix::take,Vec::take size=n=4,test_size=1.0 dom=x-any-f64-bits,permutation-symbolic stubs=fake_thread_rng,any_perm,no_format
tts!(c16_tts_n4_t10_shuffle, 4, 10, true, 7);
// @vp name=c16_tts_n5_t02_shuffle prop=C16 tier=quick t=480 fns=train_test_split,BaseMatrix::take,Vec::take size=n=5,test_size=0.2 dom=x-any-f64-bits,permutation-symbolic stubs=fake_thread_rng,any_perm,no_format
tts!(c16_tts_n5_t02_shuffle, 5, 2, true, 8);
// @vp name=c16_tts_n5_t05_shuffle prop=C16 tier=quick t=480 fns=train_test_split,BaseMatrix::take,Vec::take size=n=5,test_size=0.5 dom=x-any-f64-bits,permutation-symbolic stubs=fake_thread_rng,any_perm,no_format
tts!(c16_tts_n5_t05_shuffle, 5, 5, true, 8);
// @vp name=c16_tts_n5_t07_ordered prop=C16 tier=quick t=480 fns=train_test_split,BaseMatrix::take,Vec::take size=n=5,test_size=0.7 dom=x-any-f64-bits,no-shuffle stubs=fake_thread_rng,any_perm,no_format
tts!(c16_tts_n5_t07_ordered, 5, 7, false, 8);
// @vp name=c16_tts_n5_t09_shuffle prop=C16 tier=thorough t=3000 fns=train_test_split,BaseMatrix::take,Vec::take size=n=5,test_size=0.9 dom=x-any-f64-bits,permutation-symbolic stubs=fake_thread_rng,any_perm,no_format
tts!(c16_tts_n5_t09_shuffle, 5, 9, true, 8);
// @vp name=c16_tts_n6_t03_shuffle prop=C16 tier=thorough t=3000 fns=train_test_split,BaseMatrix::take,Vec::take size=n=6,test_size=0.3 dom=x-any-f64-bits,permutation-symbolic stubs=fake_thread_rng,any_perm,no_format
tts!(c16_tts_n6_t03_shuffle, 6, 3, true, 9);
// @vp name=c16_tts_n6_t05_shuffle prop=C16 tier=thorough t=3000 fns=train_test_split,BaseMatrix::take,Vec::take size=n=6,test_size=0.5 dom=x-any-f64-bits,permutation-symbolic stubs=fake_thread_rng,any_perm,no_format
tts!(c16_tts_n6_t05_shuffle, 6, 5, true, 9);
// @vp name=c16_tts_n6_t08_ordered prop=C16 tier=thorough t=3000 fns=train_test_split,BaseMatrix::take,Vec::take size=n=6,test_size=0.8 dom=x-any-f64-bits,no-shuffle stubs=fake_thread_rng,any_perm,no_format
tts!(c16_tts_n6_t08_ordered, 6, 8, false, 9);


// single-precision evaluation matters: 5/6 as f32 is 0.8333333 (below 5/6) but 6 * 0.8333333f32 rounds to 5.0 in f32 -> 5 test rows
// (in double precision the product stays below 5 and would give 4)
// @vp name=c16_tts_n6_five_sixths prop=C16 tier=quick t=480 fns=train_test_split size=n=6,test_size=5/6(f32) dom=x-any-f64-bits,no-shuffle stubs=fake_thread_rng,any_perm,no_format
tts!(c16_tts_n6_five_sixths, 6, 5.0f32 / 6.0f32, 5, false, 9);
// @vp name=c16_tts_n3_two_thirds prop=C16 tier=quick t=480 fns=train_test_split size=n=3,test_size=2/3(f32) dom=x-any-f64-bits,permutation-symbolic stubs=fake_thread_rng,any_perm,no_format
tts!(c16_tts_n3_two_thirds, 3, 2.0f32 / 3.0f32, 2, true, 6);

macro_rules! tts_rejects {
    ($name:ident, $body:expr) => {
        rng_stubs! {
            #[cfg_attr(kani, kani::unwind(6))]
            fn $name() {
                vp_reached!();
                $body;
                vp_fail!("C16:tts-invalid-argument-not-rejected");
            }
        }
    };
}
// @vp name=c16_tts_bad_test_size prop=C16 tier=quick t=300 fns=train_test_split size=n=3 dom=test_size<=0-or->1-or-too-small expect=panic stubs=fake_thread_rng,any_perm,no_format
tts_rejects!(c16_tts_bad_test_size, {
    let x: DenseMatrix<f64> = DenseMatrix::zeros(3, 1);
    let y = vec![0f64; 3];
    let ts: f32 = kani::any();
    kani::assume(ts <= 0.0 || (ts > 1.0 && ts <= 100.0) || (ts > 0.0 && ts < 0.3));
    let _ = train_test_split(&x, &y, ts, kani::any());
});
// @vp name=c16_tts_length_mismatch prop=C16 tier=quick t=300 fns=train_test_split size=x=3rows,y=2 dom=concrete expect=panic stubs=fake_thread_rng,any_perm,no_format
tts_rejects!(c16_tts_length_mismatch, {
    let x: DenseMatrix<f64> = DenseMatrix::zeros(3, 1);
    let y = vec![0f64; 2];
    let _ = train_test_split(&x, &y, 0.5, kani::any());
});

macro_rules! kfold {
    ($name:ident, $n:expr, $k:expr, $shuffle:expr, $unw:expr) => {
        rng_stubs! {
            #[cfg_attr(kani, kani::unwind($unw))]
            fn $name() {
                const N: usize = $n;
                const K: usize = $k;
                let x: DenseMatrix<f64> = DenseMatrix::zeros(N, 1);
                let kf = KFold { n_splits: K, shuffle: $shuffle };
                vp_assert!(kf.n_splits() == K, "C16:kfold-n_splits");
                for _ in 0..repeats() {
                    let mut in_test = [0u8; N];
                    let mut start = 0usize;
                    let mut it = kf.split(&x);
                    for folds in 0..K {
                        let (train, test) = match it.next() {
                            Some(p) => p,
                            None => vp_fail!("C16:kfold-number-of-folds"),
                        };
                        let want = N / K + if folds < N % K { 1 } else { 0 };
                        vp_assert!(test.len() == want, "C16:kfold-balanced-sizes");
                        vp_assert!(train.len() + test.len() == N, "C16:kfold-train-is-complement-size");
                        let mut mark = [0u8; N];
                        for p in 0..want {
                            let i = test[p];
                            vp_assert!(i < N, "C16:kfold-index-in-range");
                            in_test[i] += 1;
                            mark[i] += 1;
                            if !$shuffle {
                                vp_assert!(i == start + p, "C16:kfold-consecutive-blocks");
                            }
                        }
                        for p in 0..(N - want) {
                            let i = train[p];
                            vp_assert!(i < N, "C16:kfold-index-in-range");
                            mark[i] += 1;
                        }
                        for i in 0..N {
                            vp_assert!(mark[i] == 1, "C16:kfold-train-is-exact-complement");
                        }
                        start += want;
                    }
                    vp_assert!(it.next().is_none(), "C16:kfold-number-of-folds");
                    for i in 0..N {
                        vp_assert!(in_test[i] == 1, "C16:kfold-test-sets-partition");
                    }
                }
                vp_reached!();
            }
        }
    };
}
// (the full split iterator for k >= 3 was tried for n = 3..5, with and without shuffling: it never finished - Vec<Vec<bool>>::reverse -
// and was removed; k >= 3 is covered through the test_indices / test_masks hook below)
// @vp name=c16_kfold_n2_k2 prop=C16 tier=quick t=300 fns=KFold::split,KFoldIter::next size=n=2,k=2 dom=no-shuffle stubs=fake_thread_rng,any_perm,no_format
kfold!(c16_kfold_n2_k2, 2, 2, false, 5);
// @vp name=c16_kfold_n3_k2 prop=C16 tier=quick t=300 fns=KFold::split,KFoldIter::next size=n=3,k=2 dom=no-shuffle stubs=fake_thread_rng,any_perm,no_format
kfold!(c16_kfold_n3_k2, 3, 2, false, 6);
// @vp name=c16_kfold_n4_k2 prop=C16 tier=quick t=480 fns=KFold::split,KFoldIter::next size=n=4,k=2 dom=no-shuffle stubs=fake_thread_rng,any_perm,no_format
kfold!(c16_kfold_n4_k2, 4, 2, false, 7);
// @vp name=c16_kfold_n5_k2 prop=C16 tier=quick t=480 fns=KFold::split,KFoldIter::next size=n=5,k=2 dom=no-shuffle stubs=fake_thread_rng,any_perm,no_format
kfold!(c16_kfold_n5_k2, 5, 2, false, 8);
// @vp name=c16_kfold_n6_k2 prop=C16 tier=thorough t=3000 fns=KFold::split,KFoldIter::next size=n=6,k=2 dom=no-shuffle stubs=fake_thread_rng,any_perm,no_format
kfold!(c16_kfold_n6_k2, 6, 2, false, 9);

// @vp name=c16_kfold_shuffle_n2_k2 prop=C16 tier=quick t=300 fns=KFold::split,KFoldIter::next size=n=2,k=2 dom=shuffle=arbitrary-permutation stubs=fake_thread_rng,any_perm,no_format
kfold!(c16_kfold_shuffle_n2_k2, 2, 2, true, 5);
// @vp name=c16_kfold_shuffle_n3_k2 prop=C16 tier=quick t=480 fns=KFold::split,KFoldIter::next size=n=3,k=2 dom=shuffle=arbitrary-permutation stubs=fake_thread_rng,any_perm,no_format
kfold!(c16_kfold_shuffle_n3_k2, 3, 2, true, 6);
// @vp name=c16_kfold_shuffle_n4_k2 prop=C16 tier=thorough t=3000 fns=KFold::split,KFoldIter::next size=n=4,k=2 dom=shuffle=arbitrary-permutation stubs=fake_thread_rng,any_perm,no_format
kfold!(c16_kfold_shuffle_n4_k2, 4, 2, true, 7);
// @vp name=c16_kfold_shuffle_n5_k2 prop=C16 tier=thorough t=3000 fns=KFold::split,KFoldIter::next size=n=5,k=2 dom=shuffle=arbitrary-permutation stubs=fake_thread_rng,any_perm,no_format
kfold!(c16_kfold_shuffle_n5_k2, 5, 2, true, 8);

macro_rules! kfold_rejects {
    ($name:ident, $k:expr, $shuffle:expr) => {
        rng_stubs! {
            #[cfg_attr(kani, kani::unwind(6))]
            fn $name() {
                let x: DenseMatrix<f64> = DenseMatrix::zeros(3, 1);
                let kf = KFold { n_splits: $k, shuffle: $shuffle };
                vp_reached!();
                let _ = kf.split(&x);
                vp_fail!("C16:kfold-k-below-2-not-rejected");
            }
        }
    };
}
// @vp name=c16_kfold_k0_rejected prop=C16 tier=quick t=300 fns=KFold::split size=n=3,k=0 dom=concrete expect=panic stubs=fake_thread_rng,any_perm,no_format
kfold_rejects!(c16_kfold_k0_rejected, 0, false);
// @vp name=c16_kfold_k1_rejected prop=C16 tier=quick t=300 fns=KFold::split size=n=3,k=1 dom=concrete expect=panic stubs=fake_thread_rng,any_perm,no_format
kfold_rejects!(c16_kfold_k1_rejected, 1, true);

// The index / mask computation behind `split` for k >= 3 (the full iterator does not finish for k >= 3 because of
// Vec<Vec<bool>>::reverse): test index sets partition 0..n, are balanced, consecutive without shuffling; masks mark
// exactly the test indices.
macro_rules! kfold_indices {
    ($name:ident, $n:expr, $k:expr, $shuffle:expr, $unw:expr) => {
        rng_stubs! {
            #[cfg_attr(kani, kani::unwind($unw))]
            fn $name() {
                const N: usize = $n;
                const K: usize = $k;
                let x: DenseMatrix<f64> = DenseMatrix::zeros(N, 1);
                let kf = KFold { n_splits: K, shuffle: $shuffle };
                for _ in 0..repeats() {
                    let idx = kf.verif_test_indices(&x);
                    vp_assert!(idx.len() == K, "C16:kfold-number-of-folds");
                    let mut in_test = [0u8; N];
                    let mut start = 0usize;
                    for f in 0..K {
                        let want = N / K + if f < N % K { 1 } else { 0 };
                        vp_assert!(idx[f].len() == want, "C16:kfold-balanced-sizes");
                        for p in 0..want {
                            let i = idx[f][p];
                            vp_assert!(i < N, "C16:kfold-index-in-range");
                            in_test[i] += 1;
                            if !$shuffle {
                                vp_assert!(i == start + p, "C16:kfold-consecutive-blocks");
                            }
                        }
                        start += want;
                    }
                    for i in 0..N {
                        vp_assert!(in_test[i] == 1, "C16:kfold-test-sets-partition");
                    }
                }
                vp_reached!();
            }
        }
    };
}
macro_rules! kfold_masks {
    ($name:ident, $n:expr, $k:expr, $unw:expr) => {
        rng_stubs! {
            #[cfg_attr(kani, kani::unwind($unw))]
            fn $name() {
                const N: usize = $n;
                const K: usize = $k;
                let x: DenseMatrix<f64> = DenseMatrix::zeros(N, 1);
                let kf = KFold { n_splits: K, shuffle: false };
                let masks = kf.verif_test_masks(&x);
                vp_assert!(masks.len() == K, "C16:kfold-number-of-folds");
                let mut start = 0usize;
                for f in 0..K {
                    let want = N / K + if f < N % K { 1 } else { 0 };
                    vp_assert!(masks[f].len() == N, "C16:kfold-mask-length");
                    for i in 0..N {
                        vp_assert!(masks[f][i] == (i >= start && i < start + want), "C16:kfold-mask-marks-test-block");
                    }
                    start += want;
                }
                vp_reached!();
            }
        }
    };
}
// @vp name=c16_kfold_indices_n3_k3 prop=C16 tier=quick t=480 fns=KFold::test_indices size=n=3,k=3 dom=no-shuffle stubs=fake_thread_rng,any_perm,no_format
kfold_indices!(c16_kfold_indices_n3_k3, 3, 3, false, 6);
// @vp name=c16_kfold_indices_n4_k3 prop=C16 tier=quick t=480 fns=KFold::test_indices size=n=4,k=3 dom=no-shuffle stubs=fake_thread_rng,any_perm,no_format
kfold_indices!(c16_kfold_indices_n4_k3, 4, 3, false, 7);
// @vp name=c16_kfold_indices_n5_k3 prop=C16 tier=quick t=480 fns=KFold::test_indices size=n=5,k=3 dom=no-shuffle stubs=fake_thread_rng,any_perm,no_format
kfold_indices!(c16_kfold_indices_n5_k3, 5, 3, false, 8);
// @vp name=c16_kfold_indices_n5_k4 prop=C16 tier=quick t=480 fns=KFold::test_indices size=n=5,k=4 dom=no-shuffle stubs=fake_thread_rng,any_perm,no_format
kfold_indices!(c16_kfold_indices_n5_k4, 5, 4, false, 8);
// @vp name=c16_kfold_indices_shuffle_n4_k4 prop=C16 tier=quick t=480 fns=KFold::test_indices size=n=4,k=4 dom=shuffle=arbitrary-permutation stubs=fake_thread_rng,any_perm,no_format
kfold_indices!(c16_kfold_indices_shuffle_n4_k4, 4, 4, true, 7);
// @vp name=c16_kfold_indices_shuffle_n3_k3 prop=C16 tier=quick t=480 fns=KFold::test_indices size=n=3,k=3 dom=shuffle=arbitrary-permutation stubs=fake_thread_rng,any_perm,no_format
kfold_indices!(c16_kfold_indices_shuffle_n3_k3, 3, 3, true, 6);
// @vp name=c16_kfold_indices_shuffle_n4_k3 prop=C16 tier=quick t=480 fns=KFold::test_indices size=n=4,k=3 dom=shuffle=arbitrary-permutation stubs=fake_thread_rng,any_perm,no_format
kfold_indices!(c16_kfold_indices_shuffle_n4_k3, 4, 3, true, 7);
// @vp name=c16_kfold_indices_shuffle_n5_k3 prop=C16 tier=quick t=480 fns=KFold::test_indices size=n=5,k=3 dom=shuffle=arbitrary-permutation stubs=fake_thread_rng,any_perm,no_format
kfold_indices!(c16_kfold_indices_shuffle_n5_k3, 5, 3, true, 8);
// @vp name=c16_kfold_indices_n6_k4 prop=C16 tier=quick t=480 fns=KFold::test_indices size=n=6,k=4 dom=no-shuffle stubs=fake_thread_rng,any_perm,no_format
kfold_indices!(c16_kfold_indices_n6_k4, 6, 4, false, 9);
// @vp name=c16_kfold_indices_n7_k3 prop=C16 tier=quick t=480 fns=KFold::test_indices size=n=7,k=3 dom=no-shuffle stubs=fake_thread_rng,any_perm,no_format
kfold_indices!(c16_kfold_indices_n7_k3, 7, 3, false, 10);
// @vp name=c16_kfold_indices_shuffle_n6_k3 prop=C16 tier=thorough t=3000 fns=KFold::test_indices size=n=6,k=3 dom=shuffle=arbitrary-permutation stubs=fake_thread_rng,any_perm,no_format
kfold_indices!(c16_kfold_indices_shuffle_n6_k3, 6, 3, true, 9);
// @vp name=c16_kfold_masks_n3_k3 prop=C16 tier=quick t=480 fns=KFold::test_masks,KFold::test_indices size=n=3,k=3 dom=no-shuffle stubs=fake_thread_rng,any_perm,no_format
kfold_masks!(c16_kfold_masks_n3_k3, 3, 3, 6);
// @vp name=c16_kfold_masks_n4_k3 prop=C16 tier=quick t=480 fns=KFold::test_masks,KFold::test_indices size=n=4,k=3 dom=no-shuffle stubs=fake_thread_rng,any_perm,no_format
kfold_masks!(c16_kfold_masks_n4_k3, 4, 3, 7);
// @vp name=c16_kfold_masks_n5_k4 prop=C16 tier=thorough t=3000 fns=KFold::test_masks,KFold::test_indices size=n=5,k=4 dom=no-shuffle stubs=fake_thread_rng,any_perm,no_format
kfold_masks!(c16_kfold_masks_n5_k4, 5, 4, 8);
// @vp name=c16_kfold_indices_n8_k3 prop=C16 tier=quick t=480 fns=KFold::test_indices size=n=8,k=3 dom=no-shuffle stubs=fake_thread_rng,any_perm,no_format
kfold_indices!(c16_kfold_indices_n8_k3, 8, 3, false, 11);
// @vp name=c16_kfold_indices_n9_k4 prop=C16 tier=quick t=480 fns=KFold::test_indices size=n=9,k=4 dom=no-shuffle stubs=fake_thread_rng,any_perm,no_format
kfold_indices!(c16_kfold_indices_n9_k4, 9, 4, false, 12);
// @vp name=c16_kfold_indices_n10_k3 prop=C16 tier=thorough t=3000 fns=KFold::test_indices size=n=10,k=3 dom=no-shuffle stubs=fake_thread_rng,any_perm,no_format
kfold_indices!(c16_kfold_indices_n10_k3, 10, 3, false, 13);
// @vp name=c16_kfold_indices_n12_k5 prop=C16 tier=thorough t=3000 fns=KFold::test_indices size=n=12,k=5 dom=no-shuffle stubs=fake_thread_rng,any_perm,no_format
kfold_indices!(c16_kfold_indices_n12_k5, 12, 5, false, 15);
// @vp name=c16_kfold_indices_shuffle_n5_k2 prop=C16 tier=quick t=480 fns=KFold::test_indices size=n=5,k=2 dom=shuffle=arbitrary-permutation stubs=fake_thread_rng,any_perm,no_format
kfold_indices!(c16_kfold_indices_shuffle_n5_k2, 5, 2, true, 8);
// @vp name=c16_kfold_indices_shuffle_n6_k2 prop=C16 tier=thorough t=3000 fns=KFold::test_indices size=n=6,k=2 dom=shuffle=arbitrary-permutation stubs=fake_thread_rng,any_perm,no_format
kfold_indices!(c16_kfold_indices_shuffle_n6_k2, 6, 2, true, 9);
// @vp name=c16_kfold_indices_shuffle_n7_k3 prop=C16 tier=thorough t=3000 fns=KFold::test_indices size=n=7,k=3 dom=shuffle=arbitrary-permutation stubs=fake_thread_rng,any_perm,no_format
kfold_indices!(c16_kfold_indices_shuffle_n7_k3, 7, 3, true, 10);

// ---------------------------------------------------------------------------------------------
// cross_val_predict / cross_validate with the real KFold splitter and an instrumented estimator that records the row ids it was
// fitted on and echoes row ids: every model is fitted on exactly its fold's training rows (target still attached), asked only
// about rows it has not seen, and every held-out prediction lands at the sample's original position.
// Column 0 of x carries the row id; column 1 and the targets are symbolic.
// ---------------------------------------------------------------------------------------------
use smartcore::api::Predictor;
use smartcore::model_selection::{cross_val_predict, cross_validate};

pub struct Echo<const N: usize> {
    seen: [bool; N],
}
impl<const N: usize> Predictor<DenseMatrix<f64>, Vec<f64>> for Echo<N> {
    fn predict(&self, x: &DenseMatrix<f64>) -> Result<Vec<f64>, Failed> {
        let n = x.shape().0;
        let mut out = vec![0f64; n];
        for i in 0..n {
            let id = x.get(i, 0) as usize;
            out[i] = id as f64 + if self.seen[id] { 1000.0 } else { 10.0 };
        }
        Ok(out)
    }
}

macro_rules! cv_predict {
    ($name:ident, $n:expr, $k:expr, $shuffle:expr, $unw:expr) => {
        rng_stubs! {
            #[cfg_attr(kani, kani::unwind($unw))]
            fn $name() {
                const N: usize = $n;
                let v: [f64; N] = kani::any();
                let mut xa = [0f64; 2 * N];
                let mut y = vec![0f64; N];
                for i in 0..N {
                    xa[2 * i] = i as f64;
                    xa[2 * i + 1] = v[i];
                    y[i] = 100.0 + i as f64;
                }
                let x = DenseMatrix::from_array(N, 2, &xa);
                let fit = |xt: &DenseMatrix<f64>, yt: &Vec<f64>, _p: ()| -> Result<Echo<N>, Failed> {
                    let mut seen = [false; N];
                    vp_assert!(xt.shape().0 == yt.len(), "C16:cv-train-x-and-y-have-the-same-rows");
                    for i in 0..xt.shape().0 {
                        let id = xt.get(i, 0) as usize;
                        vp_assert!(yt[i] == 100.0 + id as f64, "C16:cv-training-target-attached-to-its-row");
                        vp_assert!(same64(xt.get(i, 1), v[id]), "C16:cv-training-row-intact");
                        vp_assert!(!seen[id], "C16:cv-training-rows-distinct");
                        seen[id] = true;
                    }
                    Ok(Echo { seen })
                };
                for _ in 0..repeats() {
                    let p = match cross_val_predict(fit, &x, &y, (), KFold { n_splits: $k, shuffle: $shuffle }) {
                        Ok(p) => p,
                        Err(e) => {
                            core::mem::forget(e);
                            vp_fail!("C16:cross-val-predict-failed")
                        }
                    };
                    vp_assert!(p.len() == N, "C16:cv-one-prediction-per-sample");
                    for i in 0..N {
                        // i + 10: predicted by a model that has not seen row i, and placed at row i's own position
                        vp_assert!(p[i] == i as f64 + 10.0, "C16:cv-prediction-out-of-fold-and-at-original-position");
                    }
                }
                vp_reached!();
            }
        }
    };
}
// @vp name=c16_cv_predict_n4_k2 prop=C16 tier=quick t=480 fns=cross_val_predict,KFold::split,BaseMatrix::take,Vec::take size=n=4,k=2 dom=x-column-any-f64-bits,no-shuffle,instrumented-estimator stubs=fake_thread_rng,any_perm,no_format
cv_predict!(c16_cv_predict_n4_k2, 4, 2, false, 8);
// @vp name=c16_cv_predict_n3_k2 prop=C16 tier=quick t=480 fns=cross_val_predict,KFold::split,BaseMatrix::take,Vec::take size=n=3,k=2 dom=x-column-any-f64-bits,no-shuffle,instrumented-estimator stubs=fake_thread_rng,any_perm,no_format
cv_predict!(c16_cv_predict_n3_k2, 3, 2, false, 7);
// @vp name=c16_cv_predict_shuffle_n3_k2 prop=C16 tier=thorough t=3000 fns=cross_val_predict,KFold::split,BaseMatrix::take,Vec::take size=n=3,k=2 dom=x-column-any-f64-bits,shuffle=arbitrary-permutation,instrumented-estimator stubs=fake_thread_rng,any_perm,no_format
cv_predict!(c16_cv_predict_shuffle_n3_k2, 3, 2, true, 7);

// cross_validate: each fold's test score is computed on exactly the held-out rows by a model that has not seen them
// @vp name=c16_cross_validate_n4_k2 prop=C16 tier=quick t=480 fns=cross_validate,KFold::split,BaseMatrix::take,Vec::take size=n=4,k=2 dom=x-column-any-f64-bits,no-shuffle,instrumented-estimator stubs=fake_thread_rng,any_perm,no_format
rng_stubs! {
    #[cfg_attr(kani, kani::unwind(8))]
    fn c16_cross_validate_n4_k2() {
        const N: usize = 4;
        let v: [f64; N] = kani::any();
        let mut xa = [0f64; 2 * N];
        let mut y = vec![0f64; N];
        for i in 0..N {
            xa[2 * i] = i as f64;
            xa[2 * i + 1] = v[i];
            y[i] = 100.0 + i as f64;
        }
        let x = DenseMatrix::from_array(N, 2, &xa);
        let fit = |xt: &DenseMatrix<f64>, yt: &Vec<f64>, _p: ()| -> Result<Echo<N>, Failed> {
            let mut seen = [false; N];
            for i in 0..xt.shape().0 {
                let id = xt.get(i, 0) as usize;
                vp_assert!(yt[i] == 100.0 + id as f64, "C16:cv-training-target-attached-to-its-row");
                seen[id] = true;
            }
            Ok(Echo { seen })
        };
        // score = number of predictions that come from a model that had NOT seen the row (prediction - target + 90 == 0)
        let score = |yt: &Vec<f64>, yp: &Vec<f64>| -> f64 {
            let mut fresh = 0.0;
            for i in 0..yt.len() {
                if yp[i] - (yt[i] - 100.0) == 10.0 {
                    fresh += 1.0;
                }
            }
            fresh
        };
        let r = match cross_validate(fit, &x, &y, (), KFold { n_splits: 2, shuffle: false }, score) {
            Ok(r) => r,
            Err(e) => {
                core::mem::forget(e);
                vp_fail!("C16:cross-validate-failed")
            }
        };
        vp_assert!(r.test_score.len() == 2 && r.train_score.len() == 2, "C16:cv-one-score-per-fold");
        for f in 0..2 {
            // all 2 held-out rows are unseen by the fold's model; none of the 2 training rows is
            vp_assert!(r.test_score[f] == 2.0, "C16:cv-test-score-on-exactly-the-held-out-rows");
            vp_assert!(r.train_score[f] == 0.0, "C16:cv-train-score-on-exactly-the-training-rows");
        }
        vp_reached!();
    }
}
