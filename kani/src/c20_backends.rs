//! C20 — the ndarray and nalgebra backends give the same answers as the logical row-major view (and hence as the dense
//! backend, which C03 checks against the same oracle).  Built only with the cargo feature `backends`.
use crate::common::*;
use nalgebra::DMatrix;
use ndarray::Array2;
use smartcore::linalg::stats::MatrixStats;

fn nd<const N: usize>(r: usize, c: usize, a: &[f64; N]) -> Array2<f64> {
    Array2::from_shape_vec((r, c), a.to_vec()).unwrap()
}
fn na<const N: usize>(r: usize, c: usize, a: &[f64; N]) -> DMatrix<f64> {
    DMatrix::from_row_slice(r, c, &a[..])
}

/// structural operations against the logical view of the row-major input
fn structural<M: BaseMatrix<f64>, const R: usize, const C: usize, const N: usize, const PART: usize>(m: M, a: &[f64; N]) {
    vp_assert!(m.shape() == (R, C), "C20:shape");
    if PART == 0 {
    for r in 0..R {
        let row = m.get_row_as_vec(r);
        let rowv = m.get_row(r);
        let mut buf = vec![0f64; C];
        m.copy_row_as_vec(r, &mut buf);
        vp_assert!(row.len() == C && rowv.len() == C, "C20:get_row-length");
        for c in 0..C {
            vp_assert!(same64(m.get(r, c), a[r * C + c]), "C20:get");
            vp_assert!(same64(row[c], a[r * C + c]) && same64(rowv.get(c), a[r * C + c]) && same64(buf[c], a[r * C + c]), "C20:get_row");
        }
    }
    for c in 0..C {
        let col = m.get_col_as_vec(c);
        let mut buf = vec![0f64; R];
        m.copy_col_as_vec(c, &mut buf);
        vp_assert!(col.len() == R, "C20:get_col-length");
        for r in 0..R {
            vp_assert!(same64(col[r], a[r * C + c]) && same64(buf[r], a[r * C + c]), "C20:get_col");
        }
    }
    }
    if PART == 1 {
    let t = m.transpose();
    vp_assert!(t.shape() == (C, R), "C20:transpose-shape");
    for r in 0..R {
        for c in 0..C {
            vp_assert!(same64(t.get(c, r), a[r * C + c]), "C20:transpose");
        }
    }
    let flat = m.clone().to_row_vector();
    vp_assert!(flat.len() == N, "C20:to_row_vector-length");
    for k in 0..N {
        vp_assert!(same64(flat.get(k), a[k]), "C20:to_row_vector-row-major");
    }
    }
    if PART == 2 {
    for nr in 1..=N {
        if N % nr == 0 {
            let nc = N / nr;
            let rs = m.reshape(nr, nc);
            vp_assert!(rs.shape() == (nr, nc), "C20:reshape-shape");
            for i in 0..nr {
                for j in 0..nc {
                    vp_assert!(same64(rs.get(i, j), a[i * nc + j]), "C20:reshape-row-major");
                }
            }
        }
    }
    }
    vp_reached!();
}

/// flattening and reshaping a TRANSPOSED (non-standard-layout) operand must still follow the logical row-major order
fn transposed_layout<M: BaseMatrix<f64>, const R: usize, const C: usize, const N: usize, const PART: usize>(m: M, a: &[f64; N]) {
    let t = m.transpose(); // logical C x R
    if PART == 0 {
    let flat = t.clone().to_row_vector();
    vp_assert!(flat.len() == N, "C20:to_row_vector-length");
    for c in 0..C {
        for r in 0..R {
            vp_assert!(same64(flat.get(c * R + r), a[r * C + c]), "C20:to_row_vector-of-transposed-operand-is-logical-row-major");
        }
    }
    }
    if PART == 1 {
    // reshape the transposed operand back to R x C: entry (i, j) is element i*C + j of the logical row-major order of t
    let rs = t.reshape(R, C);
    vp_assert!(rs.shape() == (R, C), "C20:reshape-shape");
    for i in 0..R {
        for j in 0..C {
            let k = i * C + j; // position in t's row-major order: row k / R, column k % R of t = a[(k % R) * C + k / R]
            vp_assert!(same64(rs.get(i, j), a[(k % R) * C + k / R]), "C20:reshape-of-transposed-operand-is-logical-row-major");
        }
    }
    }
    vp_reached!();
}

fn slice_stack<M: BaseMatrix<f64>, const R: usize, const C: usize, const N: usize, const PART: usize>(m: M, m2: M, a: &[f64; N], b: &[f64; N]) {
    if PART == 0 {
    for r0 in 0..R {
        for r1 in (r0 + 1)..=R {
            for c0 in 0..C {
                for c1 in (c0 + 1)..=C {
                    let s = m.slice(r0..r1, c0..c1);
                    vp_assert!(s.shape() == (r1 - r0, c1 - c0), "C20:slice-shape");
                    for r in r0..r1 {
                        for c in c0..c1 {
                            vp_assert!(same64(s.get(r - r0, c - c0), a[r * C + c]), "C20:slice");
                        }
                    }
                }
            }
        }
    }
    let t0 = m.take(&[R - 1, 0], 0);
    let t1 = m.take(&[C - 1, 0], 1);
    vp_assert!(t0.shape() == (2, C) && t1.shape() == (R, 2), "C20:take-shape");
    for c in 0..C {
        vp_assert!(same64(t0.get(0, c), a[(R - 1) * C + c]) && same64(t0.get(1, c), a[c]), "C20:take-rows");
    }
    for r in 0..R {
        vp_assert!(same64(t1.get(r, 0), a[r * C + C - 1]) && same64(t1.get(r, 1), a[r * C]), "C20:take-cols");
    }
    }
    if PART == 1 {
    let v = m.v_stack(&m2);
    let h = m.h_stack(&m2);
    vp_assert!(v.shape() == (2 * R, C) && h.shape() == (R, 2 * C), "C20:stack-shape");
    for r in 0..R {
        for c in 0..C {
            vp_assert!(same64(v.get(r, c), a[r * C + c]) && same64(v.get(R + r, c), b[r * C + c]), "C20:v_stack");
            vp_assert!(same64(h.get(r, c), a[r * C + c]) && same64(h.get(r, C + c), b[r * C + c]), "C20:h_stack");
        }
    }
    let mut d = m.clone();
    d.copy_from(&m2);
    let mut s = m.clone();
    s.set(R - 1, 0, b[0]);
    for r in 0..R {
        for c in 0..C {
            vp_assert!(same64(d.get(r, c), b[r * C + c]), "C20:copy_from");
            vp_assert!(same64(s.get(r, c), if r == R - 1 && c == 0 { b[0] } else { a[r * C + c] }), "C20:set");
        }
    }
    }
    if PART == 2 {
    let rv = M::from_row_vector(m.clone().to_row_vector());
    vp_assert!(rv.shape() == (1, N), "C20:from_row_vector-shape");
    for k in 0..N {
        vp_assert!(same64(rv.get(0, k), a[k]), "C20:from_row_vector");
    }
    let e = M::eye(R);
    let f = M::fill(R, C, b[0]);
    let z = M::zeros(R, C);
    let o = M::ones(R, C);
    for r in 0..R {
        for c in 0..R {
            vp_assert!(e.get(r, c) == if r == c { 1.0 } else { 0.0 }, "C20:eye");
        }
        for c in 0..C {
            vp_assert!(same64(f.get(r, c), b[0]) && z.get(r, c) == 0.0 && o.get(r, c) == 1.0, "C20:fill-zeros-ones");
        }
    }
    }
    vp_reached!();
}

/// reductions and element-wise arithmetic on the lattice (mixed signs, all-negative included)
fn reductions<M: BaseMatrix<f64> + MatrixStats<f64>, const R: usize, const C: usize, const N: usize, const PART: usize>(m: M, mb: M, ai: &[i32; N], bi: &[i32; N]) {
    if PART == 0 {
    let mut s = 0i32;
    let (mut mx, mut mn, mut mxa, mut mna, mut md) = (ai[0], ai[0], 0i32, ai[0].abs(), 0i32);
    for k in 0..N {
        s += ai[k];
        mx = mx.max(ai[k]);
        mn = mn.min(ai[k]);
        mxa = mxa.max(ai[k].abs());
        mna = mna.min(ai[k].abs());
        md = md.max((ai[k] - bi[k]).abs());
    }
    vp_assert!(m.sum() == s as f64, "C20:sum");
    vp_assert!(m.max() == mx as f64, "C20:max");
    vp_assert!(m.min() == mn as f64, "C20:min");
    vp_assert!(m.norm(f64::INFINITY) == mxa as f64, "C20:norm-inf");
    vp_assert!(m.norm(f64::NEG_INFINITY) == mna as f64, "C20:norm-neg-inf");
    vp_assert!(m.max_diff(&mb) == md as f64, "C20:max_diff");
    }
    if PART == 1 {
    let cm = m.column_mean();
    let m0 = m.mean(0);
    let m1 = m.mean(1);
    let am = m.argmax();
    vp_assert!(cm.len() == C && m0.len() == C && m1.len() == R && am.len() == R, "C20:mean-argmax-length");
    for c in 0..C {
        let mut cs = 0i32;
        for r in 0..R {
            cs += ai[r * C + c];
        }
        vp_assert!(cm[c] == cs as f64 / R as f64 && m0[c] == cs as f64 / R as f64, "C20:column_mean");
    }
    for r in 0..R {
        let mut rs = 0i32;
        let mut best = 0usize;
        for c in 0..C {
            rs += ai[r * C + c];
            if ai[r * C + c] > ai[r * C + best] {
                best = c;
            }
        }
        vp_assert!(m1[r] == rs as f64 / C as f64, "C20:mean-axis1");
        vp_assert!(am[r] == best, "C20:argmax-first-maximum");
    }
    }
    if PART == 2 {
    let add = m.add(&mb);
    let sub = m.sub(&mb);
    let mul = m.mul(&mb);
    let neg = m.negative();
    let abs = m.abs();
    let sc = m.mul_scalar(-2.0);
    let mut alleq = true;
    for r in 0..R {
        for c in 0..C {
            let k = r * C + c;
            vp_assert!(add.get(r, c) == (ai[k] + bi[k]) as f64, "C20:add");
            vp_assert!(sub.get(r, c) == (ai[k] - bi[k]) as f64, "C20:sub");
            vp_assert!(mul.get(r, c) == (ai[k] * bi[k]) as f64, "C20:mul");
            vp_assert!(neg.get(r, c) == (-ai[k]) as f64 && abs.get(r, c) == ai[k].abs() as f64, "C20:negative-abs");
            vp_assert!(sc.get(r, c) == (-2 * ai[k]) as f64, "C20:mul_scalar");
            if ai[k] != bi[k] {
                alleq = false;
            }
        }
    }
    vp_assert!(m.approximate_eq(&mb, 0.5) == alleq, "C20:approximate_eq");
    }
    vp_reached!();
}

fn latarr<const N: usize>(lo: i8, hi: i8) -> ([i32; N], [f64; N]) {
    let mut i = [0i32; N];
    let mut f = [0f64; N];
    for t in 0..N {
        let (a, b) = lat64(lo, hi);
        i[t] = a;
        f[t] = b;
    }
    (i, f)
}

macro_rules! bk {
    ($name:ident, $unw:expr, $body:block) => {
        #[cfg_attr(kani, kani::proof)]
        #[cfg_attr(kani, kani::unwind($unw))]
        pub fn $name() $body
    };
}

// @vp name=c20_nd_access_2x3 prop=C20 tier=quick mem=30 t=480 features=backends fns=ndarray::get,get_row,get_row_as_vec,copy_row_as_vec,get_col_as_vec,copy_col_as_vec size=2x3 dom=any-f64-bits
bk!(c20_nd_access_2x3, 9, {
    let a: [f64; 6] = kani::any();
    structural::<Array2<f64>, 2, 3, 6, 0>(nd(2, 3, &a), &a);
});
// @vp name=c20_nd_reshape_2x3 prop=C20 tier=quick t=480 features=backends fns=ndarray::reshape size=2x3 dom=any-f64-bits
bk!(c20_nd_reshape_2x3, 9, {
    let a: [f64; 6] = kani::any();
    structural::<Array2<f64>, 2, 3, 6, 2>(nd(2, 3, &a), &a);
});
// @vp name=c20_nd_reshape_3x2 prop=C20 tier=quick t=480 features=backends fns=ndarray::reshape size=3x2 dom=any-f64-bits
bk!(c20_nd_reshape_3x2, 9, {
    let a: [f64; 6] = kani::any();
    structural::<Array2<f64>, 3, 2, 6, 2>(nd(3, 2, &a), &a);
});
// @vp name=c20_nd_transposed_flatten_2x3 prop=C20 tier=thorough mem=25 t=1200 features=backends fns=ndarray::transpose,to_row_vector size=2x3-transposed dom=any-f64-bits
bk!(c20_nd_transposed_flatten_2x3, 9, {
    let a: [f64; 6] = kani::any();
    transposed_layout::<Array2<f64>, 2, 3, 6, 0>(nd(2, 3, &a), &a);
});
// @vp name=c20_nd_transposed_reshape_2x3 prop=C20 tier=thorough mem=25 t=1200 features=backends fns=ndarray::transpose,reshape size=2x3-transposed dom=any-f64-bits
bk!(c20_nd_transposed_reshape_2x3, 9, {
    let a: [f64; 6] = kani::any();
    transposed_layout::<Array2<f64>, 2, 3, 6, 1>(nd(2, 3, &a), &a);
});
// @vp name=c20_na_access_2x3 prop=C20 tier=quick t=480 features=backends fns=nalgebra::get,get_row,get_row_as_vec,copy_row_as_vec,get_col_as_vec,copy_col_as_vec size=2x3 dom=any-f64-bits
bk!(c20_na_access_2x3, 9, {
    let a: [f64; 6] = kani::any();
    structural::<DMatrix<f64>, 2, 3, 6, 0>(na(2, 3, &a), &a);
});
// @vp name=c20_na_transpose_flatten_2x3 prop=C20 tier=quick t=480 features=backends fns=nalgebra::transpose,to_row_vector size=2x3 dom=any-f64-bits
bk!(c20_na_transpose_flatten_2x3, 9, {
    let a: [f64; 6] = kani::any();
    structural::<DMatrix<f64>, 2, 3, 6, 1>(na(2, 3, &a), &a);
});
// @vp name=c20_na_reshape_2x3 prop=C20 tier=quick t=480 features=backends fns=nalgebra::reshape size=2x3 dom=any-f64-bits
bk!(c20_na_reshape_2x3, 9, {
    let a: [f64; 6] = kani::any();
    structural::<DMatrix<f64>, 2, 3, 6, 2>(na(2, 3, &a), &a);
});
// @vp name=c20_na_access_3x2 prop=C20 tier=quick t=480 features=backends fns=nalgebra::get,get_row,get_row_as_vec,copy_row_as_vec,get_col_as_vec,copy_col_as_vec size=3x2 dom=any-f64-bits
bk!(c20_na_access_3x2, 9, {
    let a: [f64; 6] = kani::any();
    structural::<DMatrix<f64>, 3, 2, 6, 0>(na(3, 2, &a), &a);
});
// @vp name=c20_na_transpose_flatten_3x2 prop=C20 tier=quick t=480 features=backends fns=nalgebra::transpose,to_row_vector size=3x2 dom=any-f64-bits
bk!(c20_na_transpose_flatten_3x2, 9, {
    let a: [f64; 6] = kani::any();
    structural::<DMatrix<f64>, 3, 2, 6, 1>(na(3, 2, &a), &a);
});
// @vp name=c20_na_reshape_3x2 prop=C20 tier=quick t=480 features=backends fns=nalgebra::reshape size=3x2 dom=any-f64-bits
bk!(c20_na_reshape_3x2, 9, {
    let a: [f64; 6] = kani::any();
    structural::<DMatrix<f64>, 3, 2, 6, 2>(na(3, 2, &a), &a);
});
// @vp name=c20_na_transposed_flatten_2x3 prop=C20 tier=quick t=480 features=backends fns=nalgebra::transpose,to_row_vector size=2x3-transposed dom=any-f64-bits
bk!(c20_na_transposed_flatten_2x3, 9, {
    let a: [f64; 6] = kani::any();
    transposed_layout::<DMatrix<f64>, 2, 3, 6, 0>(na(2, 3, &a), &a);
});
// @vp name=c20_na_transposed_reshape_2x3 prop=C20 tier=quick t=480 features=backends fns=nalgebra::transpose,reshape size=2x3-transposed dom=any-f64-bits
bk!(c20_na_transposed_reshape_2x3, 9, {
    let a: [f64; 6] = kani::any();
    transposed_layout::<DMatrix<f64>, 2, 3, 6, 1>(na(2, 3, &a), &a);
});

// @vp name=c20_nd_slice_take_2x3 prop=C20 tier=thorough mem=25 t=1200 features=backends fns=ndarray::slice,take size=2x3 dom=any-f64-bits
bk!(c20_nd_slice_take_2x3, 9, {
    let a: [f64; 6] = kani::any();
    let b: [f64; 6] = kani::any();
    slice_stack::<Array2<f64>, 2, 3, 6, 0>(nd(2, 3, &a), nd(2, 3, &b), &a, &b);
});
// @vp name=c20_nd_reduce_2x3 prop=C20 tier=thorough mem=25 t=1200 features=backends fns=ndarray::sum,max,min,norm,max_diff size=2x3 dom=lattice(-4..4),f64
bk!(c20_nd_reduce_2x3, 9, {
    let (ai, a) = latarr::<6>(-4, 4);
    let (bi, b) = latarr::<6>(-4, 4);
    reductions::<Array2<f64>, 2, 3, 6, 0>(nd(2, 3, &a), nd(2, 3, &b), &ai, &bi);
});
// @vp name=c20_nd_means_argmax_2x3 prop=C20 tier=thorough mem=25 t=1200 features=backends fns=ndarray::column_mean,mean,argmax size=2x3 dom=lattice(-4..4),f64
bk!(c20_nd_means_argmax_2x3, 9, {
    let (ai, a) = latarr::<6>(-4, 4);
    let (bi, b) = latarr::<6>(-4, 4);
    reductions::<Array2<f64>, 2, 3, 6, 1>(nd(2, 3, &a), nd(2, 3, &b), &ai, &bi);
});
// @vp name=c20_na_slice_take_2x3 prop=C20 tier=quick mem=30 t=480 features=backends fns=nalgebra::slice,take size=2x3 dom=any-f64-bits
bk!(c20_na_slice_take_2x3, 9, {
    let a: [f64; 6] = kani::any();
    let b: [f64; 6] = kani::any();
    slice_stack::<DMatrix<f64>, 2, 3, 6, 0>(na(2, 3, &a), na(2, 3, &b), &a, &b);
});
// @vp name=c20_na_stack_copy_set_2x3 prop=C20 tier=thorough mem=25 t=1200 features=backends fns=nalgebra::h_stack,v_stack,copy_from,set size=2x3 dom=any-f64-bits
bk!(c20_na_stack_copy_set_2x3, 9, {
    let a: [f64; 6] = kani::any();
    let b: [f64; 6] = kani::any();
    slice_stack::<DMatrix<f64>, 2, 3, 6, 1>(na(2, 3, &a), na(2, 3, &b), &a, &b);
});
// @vp name=c20_na_ctors_2x3 prop=C20 tier=quick t=480 features=backends fns=nalgebra::from_row_vector,eye,fill,zeros,ones size=2x3 dom=any-f64-bits
bk!(c20_na_ctors_2x3, 9, {
    let a: [f64; 6] = kani::any();
    let b: [f64; 6] = kani::any();
    slice_stack::<DMatrix<f64>, 2, 3, 6, 2>(na(2, 3, &a), na(2, 3, &b), &a, &b);
});
// @vp name=c20_na_reduce_2x3 prop=C20 tier=quick t=480 features=backends fns=nalgebra::sum,max,min,norm,max_diff size=2x3 dom=lattice(-4..4),f64
bk!(c20_na_reduce_2x3, 9, {
    let (ai, a) = latarr::<6>(-4, 4);
    let (bi, b) = latarr::<6>(-4, 4);
    reductions::<DMatrix<f64>, 2, 3, 6, 0>(na(2, 3, &a), na(2, 3, &b), &ai, &bi);
});
// @vp name=c20_na_means_argmax_2x3 prop=C20 tier=quick t=480 features=backends fns=nalgebra::column_mean,mean,argmax size=2x3 dom=lattice(-4..4),f64
bk!(c20_na_means_argmax_2x3, 9, {
    let (ai, a) = latarr::<6>(-4, 4);
    let (bi, b) = latarr::<6>(-4, 4);
    reductions::<DMatrix<f64>, 2, 3, 6, 1>(na(2, 3, &a), na(2, 3, &b), &ai, &bi);
});
// @vp name=c20_na_elementwise_2x3 prop=C20 tier=quick t=480 features=backends fns=nalgebra::add,sub,mul,negative,abs,mul_scalar,approximate_eq size=2x3 dom=lattice(-4..4),f64
bk!(c20_na_elementwise_2x3, 9, {
    let (ai, a) = latarr::<6>(-4, 4);
    let (bi, b) = latarr::<6>(-4, 4);
    reductions::<DMatrix<f64>, 2, 3, 6, 2>(na(2, 3, &a), na(2, 3, &b), &ai, &bi);
});

// small ndarray instances of the sign-dependent reductions for the quick tier (the 2x3 ones need 40 GB)
// @vp name=c20_nd_reduce_1x2 prop=C20 tier=quick t=480 features=backends fns=ndarray::sum,max,min,norm,max_diff size=1x2 dom=lattice(-4..4),f64
bk!(c20_nd_reduce_1x2, 6, {
    let (ai, a) = latarr::<2>(-4, 4);
    let (bi, b) = latarr::<2>(-4, 4);
    reductions::<Array2<f64>, 1, 2, 2, 0>(nd(1, 2, &a), nd(1, 2, &b), &ai, &bi);
});

// small ndarray instance of the means / argmax family for the quick tier (ties: the FIRST maximal column, as on the dense backend)
// @vp name=c20_nd_means_argmax_1x3 prop=C20 tier=quick t=480 features=backends fns=ndarray::column_mean,mean,argmax size=1x3 dom=lattice(-4..4),f64
bk!(c20_nd_means_argmax_1x3, 9, {
    let (ai, a) = latarr::<3>(-4, 4);
    let (bi, b) = latarr::<3>(-4, 4);
    reductions::<Array2<f64>, 1, 3, 3, 1>(nd(1, 3, &a), nd(1, 3, &b), &ai, &bi);
});

// argmax alone (lighter than the family above, so that it also decides iterator-style rewrites of the scan): every row's answer is
// the FIRST column holding the row maximum - ties included - on ndarray (1x3, 2x2) exactly as on the dense backend
fn argmax_only<M: BaseMatrix<f64>, const R: usize, const C: usize, const N: usize>(m: M, ai: &[i32; N]) {
    let am = m.argmax();
    vp_assert!(am.len() == R, "C20:argmax-length");
    for r in 0..R {
        let mut best = 0usize;
        for c in 0..C {
            if ai[r * C + c] > ai[r * C + best] {
                best = c;
            }
        }
        vp_assert!(am[r] == best, "C20:argmax-first-maximum");
    }
    vp_reached!();
}
// @vp name=c20_nd_argmax_1x3 prop=C20 tier=quick t=480 features=backends fns=ndarray::argmax size=1x3 dom=lattice(-4..4),f64
bk!(c20_nd_argmax_1x3, 9, {
    let (ai, a) = latarr::<3>(-4, 4);
    argmax_only::<Array2<f64>, 1, 3, 3>(nd(1, 3, &a), &ai);
});
// @vp name=c20_nd_argmax_2x2 prop=C20 tier=quick t=480 features=backends fns=ndarray::argmax size=2x2 dom=lattice(-4..4),f64
bk!(c20_nd_argmax_2x2, 9, {
    let (ai, a) = latarr::<4>(-4, 4);
    argmax_only::<Array2<f64>, 2, 2, 4>(nd(2, 2, &a), &ai);
});

// @vp name=c20_na_argmax_1x3 prop=C20 tier=quick t=480 features=backends fns=nalgebra::argmax size=1x3 dom=lattice(-4..4),f64
bk!(c20_na_argmax_1x3, 9, {
    let (ai, a) = latarr::<3>(-4, 4);
    argmax_only::<DMatrix<f64>, 1, 3, 3>(na(1, 3, &a), &ai);
});
// @vp name=c20_na_argmax_2x2 prop=C20 tier=quick t=480 features=backends fns=nalgebra::argmax size=2x2 dom=lattice(-4..4),f64
bk!(c20_na_argmax_2x2, 9, {
    let (ai, a) = latarr::<4>(-4, 4);
    argmax_only::<DMatrix<f64>, 2, 2, 4>(na(2, 2, &a), &ai);
});

// nalgebra matmul (ndarray's goes through inline assembly in `matrixmultiply` and cannot be translated)
// @vp name=c20_na_matmul_2x3_3x2 prop=C20 tier=quick mem=30 t=480 features=backends fns=nalgebra::matmul size=2x3*3x2 dom=lattice(-3..3),f64
bk!(c20_na_matmul_2x3_3x2, 9, {
    let (ai, a) = latarr::<6>(-3, 3);
    let (bi, b) = latarr::<6>(-3, 3);
    let p = na(2, 3, &a).matmul(&na(3, 2, &b));
    vp_assert!(BaseMatrix::shape(&p) == (2, 2), "C20:matmul-shape");
    for r in 0..2 {
        for c in 0..2 {
            let mut s = 0i32;
            for k in 0..3 {
                s += ai[r * 3 + k] * bi[k * 2 + c];
            }
            vp_assert!(BaseMatrix::get(&p, r, c) == s as f64, "C20:matmul");
        }
    }
    vp_reached!();
});

// dot of two row vectors / row with column (lattice)
// @vp name=c20_dot_n3 prop=C20 tier=quick t=480 features=backends fns=ndarray::dot,nalgebra::dot size=1x3 dom=lattice(-4..4),f64
bk!(c20_dot_n3, 6, {
    let (ai, a) = latarr::<3>(-4, 4);
    let (bi, b) = latarr::<3>(-4, 4);
    let want = (ai[0] * bi[0] + ai[1] * bi[1] + ai[2] * bi[2]) as f64;
    vp_assert!(BaseMatrix::dot(&na(1, 3, &a), &na(1, 3, &b)) == want, "C20:nalgebra-dot");
    vp_reached!();
});

// shape mismatches are handled like the dense backend: binary arithmetic panics, approximate_eq returns false
macro_rules! mismatch_panics {
    ($name:ident, $mk:ident) => {
        #[cfg_attr(kani, kani::proof)]
        #[cfg_attr(kani, kani::unwind(9))]
        pub fn $name() {
            let a = $mk(2, 3, &[1.0f64; 6]);
            let b = $mk(3, 2, &[1.0f64; 6]);
            let op = anyu(0, 3);
            vp_reached!();
            match op {
                0 => {
                    let _ = BaseMatrix::add(&a, &b);
                }
                1 => {
                    let _ = BaseMatrix::sub(&a, &b);
                }
                2 => {
                    let _ = BaseMatrix::mul(&a, &b);
                }
                _ => {
                    let _ = BaseMatrix::div(&a, &b);
                }
            }
            vp_fail!("C20:binary-op-incompatible-shape-not-rejected");
        }
    };
}
// @vp name=c20_nd_mismatch_panics prop=C20 tier=quick t=480 features=backends fns=ndarray::add,sub,mul,div size=2x3-op-3x2 dom=op-symbolic expect=panic
mismatch_panics!(c20_nd_mismatch_panics, nd);
// @vp name=c20_na_mismatch_panics prop=C20 tier=quick t=480 features=backends fns=nalgebra::add,sub,mul,div size=2x3-op-3x2 dom=op-symbolic expect=panic
mismatch_panics!(c20_na_mismatch_panics, na);

macro_rules! approx_eq_mismatch {
    ($name:ident, $mk:ident) => {
        #[cfg_attr(kani, kani::proof)]
        #[cfg_attr(kani, kani::unwind(9))]
        pub fn $name() {
            let a = $mk(2, 3, &[1.0f64; 6]);
            let b = $mk(3, 2, &[1.0f64; 6]);
            vp_assert!(!BaseMatrix::approximate_eq(&a, &b, 1e9), "C20:approximate_eq-on-incompatible-shapes-returns-false-like-the-dense-backend");
            vp_reached!();
        }
    };
}
// @vp name=c20_nd_approx_eq_mismatch prop=C20 tier=quick t=480 features=backends fns=ndarray::approximate_eq size=2x3-vs-3x2 dom=concrete inputs=none kf=C20-approximate-eq-mismatch-panics
approx_eq_mismatch!(c20_nd_approx_eq_mismatch, nd);
// @vp name=c20_na_approx_eq_mismatch prop=C20 tier=quick t=480 features=backends fns=nalgebra::approximate_eq size=2x3-vs-3x2 dom=concrete inputs=none kf=C20-approximate-eq-mismatch-panics
approx_eq_mismatch!(c20_na_approx_eq_mismatch, na);
