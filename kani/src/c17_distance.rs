//! C17 — distance functions are metrics and equal their closed forms.
use crate::common::*;
use smartcore::math::distance::euclidian::Euclidian;
use smartcore::math::distance::hamming::Hamming;
use smartcore::math::distance::mahalanobis::Mahalanobis;
use smartcore::math::distance::manhattan::Manhattan;
use smartcore::math::distance::minkowski::Minkowski;
use smartcore::math::distance::{Distance, Distances};

const E32: f32 = f32::EPSILON;

fn isq(v: i32) -> Option<i32> {
    let mut r = 0;
    while r * r < v {
        r += 1;
    }
    if r * r == v {
        Some(r)
    } else {
        None
    }
}

macro_rules! euclid_closed {
    ($name:ident, $d:expr, $unw:expr) => {
        vp_proof! {
            #[cfg_attr(kani, kani::unwind($unw))]
            fn $name() {
                let mut xi = [0i32; $d];
                let mut yi = [0i32; $d];
                let mut x = vec![0f32; $d];
                let mut y = vec![0f32; $d];
                for t in 0..$d {
                    let (a, b) = lat32(-4, 4);
                    xi[t] = a;
                    x[t] = b;
                    let (a, b) = lat32(-4, 4);
                    yi[t] = a;
                    y[t] = b;
                }
                let mut s = 0i32;
                for t in 0..$d {
                    s += (xi[t] - yi[t]) * (xi[t] - yi[t]);
                }
                let r: f32 = Distances::euclidian().distance(&x, &y);
                let r2: f32 = Euclidian {}.distance(&y, &x);
                vp_assert!(r >= 0.0, "C17:euclid-nonneg");
                vp_assert!(same32(r, r2), "C17:euclid-symmetric");
                vp_assert!((r * r - s as f32).abs() <= 4.0 * E32 * (s as f32), "C17:euclid-closed-form");
                if s == 0 {
                    vp_assert!(r == 0.0, "C17:euclid-identity");
                } else {
                    vp_assert!(r > 0.0, "C17:euclid-positive");
                }
                let mut ps = 0;
                while ps * ps < s {
                    ps += 1;
                }
                if ps * ps == s {
                    vp_assert!(r == ps as f32, "C17:euclid-perfect-square");
                }
                vp_reached!();
            }
        }
    };
}
// @vp name=c17_euclid_closed_d1 prop=C17 tier=quick t=300 fns=Euclidian::distance,Euclidian::squared_distance size=d=1 dom=lattice(-4..4),f32
euclid_closed!(c17_euclid_closed_d1, 1, 20);
// @vp name=c17_euclid_closed_d2 prop=C17 tier=quick t=600 fns=Euclidian::distance,Euclidian::squared_distance size=d=2 dom=lattice(-4..4),f32
euclid_closed!(c17_euclid_closed_d2, 2, 20);
// @vp name=c17_euclid_closed_d3 prop=C17 tier=quick t=900 fns=Euclidian::distance,Euclidian::squared_distance size=d=3 dom=lattice(-4..4),f32
euclid_closed!(c17_euclid_closed_d3, 3, 20);

macro_rules! euclid_axioms_ranged {
    ($name:ident, $d:expr) => {
        vp_proof! {
            #[cfg_attr(kani, kani::unwind(6))]
            fn $name() {
                // any value with magnitude in [2^-20, 2^20] or zero: squares of differences stay normal
                let mut x = vec![0f32; $d];
                let mut y = vec![0f32; $d];
                for t in 0..$d {
                    x[t] = ranged32(9.5367431640625e-7, 1048576.0);
                    y[t] = ranged32(9.5367431640625e-7, 1048576.0);
                    let dd = x[t] - y[t];
                    kani::assume(dd == 0.0 || dd.abs() >= 9.5367431640625e-7);
                }
                let r: f32 = Euclidian {}.distance(&x, &y);
                let r2: f32 = Euclidian {}.distance(&y, &x);
                let z: f32 = Euclidian {}.distance(&x, &x);
                vp_assert!(r >= 0.0, "C17:euclid-nonneg");
                vp_assert!(same32(r, r2), "C17:euclid-symmetric");
                vp_assert!(z == 0.0, "C17:euclid-identity");
                // at least as large as every coordinate difference, at most their sum (up to rounding)
                let mut l1 = 0f32;
                for t in 0..$d {
                    let dd = (x[t] - y[t]).abs();
                    l1 += dd;
                    vp_assert!(r >= dd * (1.0 - 4.0 * E32), "C17:euclid-dominates-coordinate");
                }
                vp_assert!(r <= l1 * (1.0 + 8.0 * E32), "C17:euclid-below-l1");
                vp_reached!();
            }
        }
    };
}
// (d = 2, 3 over arbitrary magnitudes never finished and were removed; d = 1 is best effort in the thorough tier)
// @vp name=c17_euclid_axioms_ranged_d1 prop=C17 tier=thorough t=3600 fns=Euclidian::distance size=d=1 dom=|x|in[2^-20,2^20]or0,f32
euclid_axioms_ranged!(c17_euclid_axioms_ranged_d1, 1);

macro_rules! euclid_triangle {
    ($name:ident, $d:expr, $lo:expr, $hi:expr) => {
        vp_proof! {
            #[cfg_attr(kani, kani::unwind(6))]
            fn $name() {
                let mut x = vec![0f32; $d];
                let mut y = vec![0f32; $d];
                let mut z = vec![0f32; $d];
                for t in 0..$d {
                    x[t] = lat32($lo, $hi).1;
                    y[t] = lat32($lo, $hi).1;
                    z[t] = lat32($lo, $hi).1;
                }
                let e = Euclidian {};
                let xy: f32 = e.distance(&x, &y);
                let yz: f32 = e.distance(&y, &z);
                let xz: f32 = e.distance(&x, &z);
                vp_assert!(xz <= (xy + yz) * (1.0 + 4.0 * E32), "C17:euclid-triangle");
                vp_reached!();
            }
        }
    };
}
// @vp name=c17_euclid_triangle_d1 prop=C17 tier=quick t=600 fns=Euclidian::distance size=d=1 dom=lattice(-4..4),f32
euclid_triangle!(c17_euclid_triangle_d1, 1, -4, 4);
// @vp name=c17_euclid_triangle_d2 prop=C17 tier=quick t=900 fns=Euclidian::distance size=d=2 dom=lattice(-4..4),f32
euclid_triangle!(c17_euclid_triangle_d2, 2, -4, 4);
// @vp name=c17_euclid_triangle_d3 prop=C17 tier=thorough t=3000 fns=Euclidian::distance size=d=3 dom=lattice(-3..3),f32
euclid_triangle!(c17_euclid_triangle_d3, 3, -3, 3);

macro_rules! manhattan_lattice {
    ($name:ident, $d:expr) => {
        vp_proof! {
            #[cfg_attr(kani, kani::unwind(6))]
            fn $name() {
                let mut xi = [0i32; $d];
                let mut yi = [0i32; $d];
                let mut zi = [0i32; $d];
                let mut x = vec![0f64; $d];
                let mut y = vec![0f64; $d];
                let mut z = vec![0f64; $d];
                for t in 0..$d {
                    let (a, b) = lat64(-8, 8);
                    xi[t] = a;
                    x[t] = b;
                    let (a, b) = lat64(-8, 8);
                    yi[t] = a;
                    y[t] = b;
                    let (a, b) = lat64(-8, 8);
                    zi[t] = a;
                    z[t] = b;
                }
                let m = Distances::manhattan();
                let xy: f64 = m.distance(&x, &y);
                let yx: f64 = m.distance(&y, &x);
                let yz: f64 = m.distance(&y, &z);
                let xz: f64 = m.distance(&x, &z);
                let xx: f64 = m.distance(&x, &x);
                let mut s = 0i32;
                for t in 0..$d {
                    s += (xi[t] - yi[t]).abs();
                }
                vp_assert!(xy == s as f64, "C17:manhattan-closed-form");
                vp_assert!(same64(xy, yx), "C17:manhattan-symmetric");
                vp_assert!(xx == 0.0, "C17:manhattan-identity");
                vp_assert!(xz <= xy + yz, "C17:manhattan-triangle");
                vp_assert!((xy == 0.0) == (s == 0), "C17:manhattan-zero-iff-equal");
                vp_reached!();
            }
        }
    };
}
// @vp name=c17_manhattan_lattice_d1 prop=C17 tier=quick t=300 fns=Manhattan::distance size=d=1 dom=lattice(-8..8),f64
manhattan_lattice!(c17_manhattan_lattice_d1, 1);
// @vp name=c17_manhattan_lattice_d2 prop=C17 tier=quick t=600 fns=Manhattan::distance size=d=2 dom=lattice(-8..8),f64
manhattan_lattice!(c17_manhattan_lattice_d2, 2);
// @vp name=c17_manhattan_lattice_d3 prop=C17 tier=quick t=900 fns=Manhattan::distance size=d=3 dom=lattice(-8..8),f64
manhattan_lattice!(c17_manhattan_lattice_d3, 3);

macro_rules! manhattan_finite {
    ($name:ident, $d:expr) => {
        vp_proof! {
            #[cfg_attr(kani, kani::unwind(6))]
            fn $name() {
                let mut x = vec![0f64; $d];
                let mut y = vec![0f64; $d];
                for t in 0..$d {
                    x[t] = ranged64(0.0, 1e300);
                    y[t] = ranged64(0.0, 1e300);
                }
                let m = Manhattan {};
                let xy: f64 = m.distance(&x, &y);
                let yx: f64 = m.distance(&y, &x);
                let xx: f64 = m.distance(&x, &x);
                vp_assert!(xy >= 0.0, "C17:manhattan-nonneg");
                vp_assert!(same64(xy, yx), "C17:manhattan-symmetric");
                vp_assert!(xx == 0.0, "C17:manhattan-identity");
                for t in 0..$d {
                    vp_assert!(xy >= (x[t] - y[t]).abs(), "C17:manhattan-dominates-coordinate");
                }
                vp_reached!();
            }
        }
    };
}
// @vp name=c17_manhattan_finite_d1 prop=C17 tier=quick t=600 fns=Manhattan::distance size=d=1 dom=finite,|x|<=1e300,f64
manhattan_finite!(c17_manhattan_finite_d1, 1);
// @vp name=c17_manhattan_finite_d2 prop=C17 tier=thorough t=3000 fns=Manhattan::distance size=d=2 dom=finite,|x|<=1e300,f64
manhattan_finite!(c17_manhattan_finite_d2, 2);
// @vp name=c17_manhattan_finite_d3 prop=C17 tier=thorough t=3600 fns=Manhattan::distance size=d=3 dom=finite,|x|<=1e300,f64
manhattan_finite!(c17_manhattan_finite_d3, 3);

macro_rules! hamming_i32 {
    ($name:ident, $d:expr) => {
        vp_proof! {
            #[cfg_attr(kani, kani::unwind(7))]
            fn $name() {
                let xa: [i8; $d] = kani::any();
                let ya: [i8; $d] = kani::any();
                let za: [i8; $d] = kani::any();
                let x: Vec<i32> = xa.iter().map(|v| *v as i32).collect();
                let y: Vec<i32> = ya.iter().map(|v| *v as i32).collect();
                let z: Vec<i32> = za.iter().map(|v| *v as i32).collect();
                let h = Distances::hamming();
                let xy: f64 = h.distance(&x, &y);
                let yx: f64 = h.distance(&y, &x);
                let yz: f64 = h.distance(&y, &z);
                let xz: f64 = h.distance(&x, &z);
                let mut c = 0;
                for t in 0..$d {
                    if xa[t] != ya[t] {
                        c += 1;
                    }
                }
                vp_assert!(xy == c as f64 / $d as f64, "C17:hamming-closed-form");
                vp_assert!(same64(xy, yx), "C17:hamming-symmetric");
                vp_assert!((xy == 0.0) == (c == 0), "C17:hamming-zero-iff-equal");
                vp_assert!(xz <= xy + yz + 1e-12, "C17:hamming-triangle");
                vp_reached!();
            }
        }
    };
}
// @vp name=c17_hamming_d1 prop=C17 tier=quick t=300 fns=Hamming::distance size=d=1 dom=any-i8-as-i32
hamming_i32!(c17_hamming_d1, 1);
// @vp name=c17_hamming_d3 prop=C17 tier=quick t=600 fns=Hamming::distance size=d=3 dom=any-i8-as-i32
hamming_i32!(c17_hamming_d3, 3);
// @vp name=c17_hamming_d4 prop=C17 tier=thorough t=1200 fns=Hamming::distance size=d=4 dom=any-i8-as-i32
hamming_i32!(c17_hamming_d4, 4);

// Hamming over float vectors (f32 result type)
// @vp name=c17_hamming_f64_d3 prop=C17 tier=quick t=600 fns=Hamming::distance size=d=3 dom=lattice(-2..2),Vec<f64>->f32
vp_proof! {
    #[cfg_attr(kani, kani::unwind(6))]
    fn c17_hamming_f64_d3() {
        let mut x = vec![0f64; 3];
        let mut y = vec![0f64; 3];
        let mut c = 0;
        for t in 0..3 {
            let (a, b) = lat64(-2, 2);
            x[t] = b;
            let (a2, b2) = lat64(-2, 2);
            y[t] = b2;
            if a != a2 {
                c += 1;
            }
        }
        let r: f32 = Hamming {}.distance(&x, &y);
        vp_assert!(r == c as f32 / 3.0f32, "C17:hamming-closed-form");
        vp_reached!();
    }
}

// Minkowski of order p = 1, 2, 3: value against the closed form (sum |d|^p)^(1/p), non-negativity, symmetry, coincidence with
// Manhattan (p = 1) and Euclidean (p = 2).  `powf` is replaced by a semantic stub (exact products / sqrt / a cube-root
// specification), so the assertions are about VALUES and hold for any correct way of organising the computation.
macro_rules! minkowski_value {
    ($name:ident, $d:expr, $p:expr, $ft:ty, $powf:path, $stub:path, $lat:ident, $tol:expr) => {
        #[cfg_attr(kani, kani::proof)]
        #[cfg_attr(kani, kani::unwind(6))]
        #[cfg_attr(kani, kani::stub($powf, $stub))]
        pub fn $name() {
            let mut xi = [0i32; $d];
            let mut yi = [0i32; $d];
            let mut x = vec![0 as $ft; $d];
            let mut y = vec![0 as $ft; $d];
            for t in 0..$d {
                let (a, b) = $lat(-4, 4);
                xi[t] = a;
                x[t] = b;
                let (a, b) = $lat(-4, 4);
                yi[t] = a;
                y[t] = b;
            }
            let r: $ft = Distances::minkowski($p).distance(&x, &y);
            let r2: $ft = Minkowski { p: $p }.distance(&y, &x);
            let mut s = 0i32; // sum |d|^p
            for t in 0..$d {
                let d = (xi[t] - yi[t]).abs();
                let mut pw = 1i32;
                for _ in 0..$p {
                    pw *= d;
                }
                s += pw;
            }
            vp_assert!(r >= 0.0, "C17:minkowski-nonneg");
            let mut rp: $ft = 1.0; // r^p
            let mut rp2: $ft = 1.0;
            for _ in 0..$p {
                rp *= r;
                rp2 *= r2;
            }
            // compared through the p-th powers (the cube-root stub is a specification, not a function)
            vp_assert!((rp - rp2).abs() <= 2.0 * $tol * (1.0 + rp), "C17:minkowski-symmetric");
            vp_assert!((rp - s as $ft).abs() <= $tol * (1.0 + s as $ft), "C17:minkowski-closed-form");
            if s == 0 {
                vp_assert!(r == 0.0, "C17:minkowski-identity");
            }
            if $p == 1 {
                let m: $ft = Manhattan {}.distance(&x, &y);
                vp_assert!((r - m).abs() <= $tol * (1.0 + m), "C17:minkowski-1-is-manhattan");
            }
            vp_reached!();
        }
    };
}
// @vp name=c17_minkowski_value_d2_p1 prop=C17 tier=quick t=480 fns=Minkowski::distance size=d=2,p=1 dom=lattice(-4..4),f64 stubs=powf_sem64
minkowski_value!(c17_minkowski_value_d2_p1, 2, 1, f64, f64::powf, crate::common::powf_sem64, lat64, 1e-9);
// @vp name=c17_minkowski_value_d3_p1 prop=C17 tier=quick t=480 fns=Minkowski::distance size=d=3,p=1 dom=lattice(-4..4),f64 stubs=powf_sem64
minkowski_value!(c17_minkowski_value_d3_p1, 3, 1, f64, f64::powf, crate::common::powf_sem64, lat64, 1e-9);
// @vp name=c17_minkowski_value_d2_p2 prop=C17 tier=quick t=480 fns=Minkowski::distance size=d=2,p=2 dom=lattice(-4..4),f32 stubs=powf_sem32
minkowski_value!(c17_minkowski_value_d2_p2, 2, 2, f32, f32::powf, crate::common::powf_sem32, lat32, 1e-4);
// @vp name=c17_minkowski_value_d2_p3 prop=C17 tier=quick t=480 fns=Minkowski::distance size=d=2,p=3 dom=lattice(-4..4),f32 stubs=powf_sem32
minkowski_value!(c17_minkowski_value_d2_p3, 2, 3, f32, f32::powf, crate::common::powf_sem32, lat32, 1e-3);
// @vp name=c17_minkowski_value_d3_p3 prop=C17 tier=thorough t=3000 fns=Minkowski::distance size=d=3,p=3 dom=lattice(-4..4),f32 stubs=powf_sem32
minkowski_value!(c17_minkowski_value_d3_p3, 3, 3, f32, f32::powf, crate::common::powf_sem32, lat32, 1e-3);

// @vp name=c17_minkowski_p0_panics prop=C17 tier=quick t=300 fns=Minkowski::distance size=d=2,p=0 dom=lattice(-4..4) expect=panic
#[cfg_attr(kani, kani::proof)]
#[cfg_attr(kani, kani::unwind(6))]
pub fn c17_minkowski_p0_panics() {
    let x = vec![lat64(-4, 4).1, lat64(-4, 4).1];
    let y = vec![lat64(-4, 4).1, lat64(-4, 4).1];
    vp_reached!();
    let _r: f64 = Minkowski { p: 0 }.distance(&x, &y);
    vp_fail!("C17:minkowski-order-below-1-not-rejected");
}

macro_rules! mismatch_panics {
    ($name:ident, $ty:ty, $make:expr) => {
        #[cfg_attr(kani, kani::proof)]
        #[cfg_attr(kani, kani::unwind(6))]
                pub fn $name() {
            let x: Vec<$ty> = vec![kani::any(), kani::any()];
            let y: Vec<$ty> = vec![kani::any(), kani::any(), kani::any()];
            let swap: bool = kani::any();
            vp_reached!();
            let d = $make;
            let _r: f64 = if swap { d.distance(&y, &x) } else { d.distance(&x, &y) };
            vp_fail!("C17:length-mismatch-not-rejected");
        }
    };
}
// @vp name=c17_mismatch_euclid prop=C17 tier=quick t=300 fns=Euclidian::distance size=2-vs-3 dom=bits expect=panic
mismatch_panics!(c17_mismatch_euclid, f64, Euclidian {});
// @vp name=c17_mismatch_manhattan prop=C17 tier=quick t=300 fns=Manhattan::distance size=2-vs-3 dom=bits expect=panic
mismatch_panics!(c17_mismatch_manhattan, f64, Manhattan {});
// @vp name=c17_mismatch_minkowski prop=C17 tier=quick t=300 fns=Minkowski::distance size=2-vs-3 dom=bits expect=panic
mismatch_panics!(c17_mismatch_minkowski, f64, Minkowski { p: 2 });
// @vp name=c17_mismatch_hamming prop=C17 tier=quick t=300 fns=Hamming::distance size=2-vs-3 dom=bits expect=panic
mismatch_panics!(c17_mismatch_hamming, i32, Hamming {});

// Mahalanobis with covariance diag(s0^2, s1^2) through the real LU inverse: scaled Euclidean
// @vp name=c17_mahalanobis_diag_2 prop=C17 tier=quick t=900 fns=Mahalanobis::new_from_covariance,Mahalanobis::distance,LU::inverse size=2x2 dom=lattice(-4..4),s_in{1,2},f32
vp_proof_traps! {
    #[cfg_attr(kani, kani::unwind(6))]
    fn c17_mahalanobis_diag_2() {
        let s0: bool = kani::any();
        let s1: bool = kani::any();
        let (v0, v1) = (if s0 { 4.0f32 } else { 1.0 }, if s1 { 4.0f32 } else { 1.0 });
        let cov = DenseMatrix::from_2d_array(&[&[v0, 0.0], &[0.0, v1]]);
        let m = Mahalanobis::new_from_covariance(&cov);
        let mut xi = [0i32; 2];
        let mut yi = [0i32; 2];
        let mut x = vec![0f32; 2];
        let mut y = vec![0f32; 2];
        for t in 0..2 {
            let (a, b) = lat32(-4, 4);
            xi[t] = a;
            x[t] = b;
            let (a, b) = lat32(-4, 4);
            yi[t] = a;
            y[t] = b;
        }
        let r: f32 = m.distance(&x, &y);
        let r2: f32 = m.distance(&y, &x);
        // 4 * d^2 = (dx0*(2 or 1))^2 + ... in integers
        let d0 = (xi[0] - yi[0]) * if s0 { 1 } else { 2 };
        let d1 = (xi[1] - yi[1]) * if s1 { 1 } else { 2 };
        let q = (d0 * d0 + d1 * d1) as f32; // = 4 d^2
        vp_assert!((4.0 * r * r - q).abs() <= 8.0 * E32 * q, "C17:mahalanobis-diag-closed-form");
        vp_assert!(same32(r, r2), "C17:mahalanobis-symmetric");
        if !s0 && !s1 {
            let e: f32 = Euclidian {}.distance(&x, &y);
            vp_assert!(same32(r, e), "C17:mahalanobis-identity-cov-is-euclid");
        }
        vp_reached!();
    }
}

macro_rules! mahalanobis_mismatch {
    ($name:ident, $lx:expr, $ly:expr) => {
        #[cfg_attr(kani, kani::proof)]
        #[cfg_attr(kani, kani::unwind(6))]
                #[cfg_attr(kani, kani::stub(std::fmt::format, crate::common::no_format))]
        pub fn $name() {
            let cov = DenseMatrix::from_2d_array(&[&[1.0f64, 0.0], &[0.0, 1.0]]);
            let m = Mahalanobis::new_from_covariance(&cov);
            let x = vec![1.0f64; $lx];
            let y = vec![2.0f64; $ly];
            vp_reached!();
            let _r: f64 = m.distance(&x, &y);
            vp_fail!("C17:mahalanobis-length-mismatch-not-rejected");
        }
    };
}
// @vp name=c17_mahalanobis_mismatch_x prop=C17 tier=quick t=600 fns=Mahalanobis::distance size=cov2x2,x=3,y=2 dom=concrete expect=panic
mahalanobis_mismatch!(c17_mahalanobis_mismatch_x, 3, 2);
// @vp name=c17_mahalanobis_mismatch_y prop=C17 tier=quick t=600 fns=Mahalanobis::distance size=cov2x2,x=2,y=1 dom=concrete expect=panic
mahalanobis_mismatch!(c17_mahalanobis_mismatch_y, 2, 1);
// y longer than the covariance dimension while x fits (and vice versa): must be rejected, not silently truncated
// @vp name=c17_mahalanobis_mismatch_y_longer prop=C17 tier=quick t=600 fns=Mahalanobis::distance size=cov2x2,x=2,y=3 dom=concrete expect=panic
mahalanobis_mismatch!(c17_mahalanobis_mismatch_y_longer, 2, 3);
// @vp name=c17_mahalanobis_mismatch_x_shorter prop=C17 tier=quick t=600 fns=Mahalanobis::distance size=cov2x2,x=1,y=2 dom=concrete expect=panic
mahalanobis_mismatch!(c17_mahalanobis_mismatch_x_shorter, 1, 2);
