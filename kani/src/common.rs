//! Shared pieces of the harness crate: value domains (DESIGN R2), stubs (DESIGN 4.3),
//! tagged assertions, and the attribute bundles used by the per-property modules.

pub use smartcore::error::{Failed, FailedError};
pub use smartcore::linalg::naive::dense_matrix::DenseMatrix;
pub use smartcore::linalg::{BaseMatrix, BaseVector, Matrix};
pub use smartcore::math::num::RealNumber;

// ---------------------------------------------------------------------------------------------
// tagged assertions / vacuity witness
// ---------------------------------------------------------------------------------------------

/// `vp_assert!(cond, "C17:euclid-closed")` — a property assertion.  The tag is what the runner
/// reports; under Kani the message is the check description, natively it is the panic message.
#[macro_export]
macro_rules! vp_assert {
    ($cond:expr, $tag:literal) => {
        assert!($cond, concat!("VP:", $tag))
    };
}

/// Unconditional tagged failure (e.g. "returned Err on valid input").
#[macro_export]
macro_rules! vp_fail {
    ($tag:literal) => {{
        // an assertion (not a bare panic) so that Kani's concrete playback produces a test for it
        assert!(false, concat!("VP:", $tag));
        unreachable!()
    }};
}

/// Vacuity witness: must be SATISFIED for the harness to count (DESIGN 5.1).
#[macro_export]
macro_rules! vp_reached {
    () => {
        #[cfg(kani)]
        kani::cover!(true, "VP:reached");
    };
}

// ---------------------------------------------------------------------------------------------
// value domains
// ---------------------------------------------------------------------------------------------

/// symbolic integer in lo..=hi
#[cfg(kani)]
pub fn lat(lo: i8, hi: i8) -> i32 {
    let k: i8 = kani::any();
    kani::assume(k >= lo && k <= hi);
    k as i32
}
#[cfg(kani)]
pub fn lat64(lo: i8, hi: i8) -> (i32, f64) {
    let k = lat(lo, hi);
    (k, k as f64)
}
#[cfg(kani)]
pub fn lat32(lo: i8, hi: i8) -> (i32, f32) {
    let k = lat(lo, hi);
    (k, k as f32)
}
/// symbolic usize in lo..=hi
#[cfg(kani)]
pub fn anyu(lo: usize, hi: usize) -> usize {
    let k: u8 = kani::any();
    kani::assume((k as usize) >= lo && (k as usize) <= hi);
    k as usize
}
#[cfg(kani)]
pub fn finite64() -> f64 {
    let x: f64 = kani::any();
    kani::assume(x.is_finite());
    x
}
#[cfg(kani)]
pub fn finite32() -> f32 {
    let x: f32 = kani::any();
    kani::assume(x.is_finite());
    x
}
/// zero, or magnitude within [lo, hi] (so that squares and sums of a few squares stay normal)
#[cfg(kani)]
pub fn ranged32(lo: f32, hi: f32) -> f32 {
    let x: f32 = kani::any();
    kani::assume(x == 0.0 || (x.abs() >= lo && x.abs() <= hi));
    x
}
#[cfg(kani)]
pub fn ranged64(lo: f64, hi: f64) -> f64 {
    let x: f64 = kani::any();
    kani::assume(x == 0.0 || (x.abs() >= lo && x.abs() <= hi));
    x
}
#[cfg(kani)]
pub fn bits64() -> f64 {
    kani::any()
}

/// bit-pattern equality of floats (NaN payloads included): data movement oracle
pub fn same64(a: f64, b: f64) -> bool {
    a.to_bits() == b.to_bits()
}
pub fn same32(a: f32, b: f32) -> bool {
    a.to_bits() == b.to_bits()
}

// ---------------------------------------------------------------------------------------------
// stubs
// ---------------------------------------------------------------------------------------------

use rand::rngs::adapter::ReseedingRng;
use rand::rngs::OsRng;
use rand::rngs::ThreadRng;
use rand_chacha::ChaCha12Core;
use std::cell::UnsafeCell;
use std::rc::Rc;

/// Replaces `rand::thread_rng` (merely mentioning the real one crashes the Kani compiler).
/// The returned generator's state is never read: every harness that executes a shuffle also
/// stubs `SliceRandom::shuffle` by `any_perm`.
pub fn fake_thread_rng() -> ThreadRng {
    let r: Rc<UnsafeCell<std::mem::MaybeUninit<ReseedingRng<ChaCha12Core, OsRng>>>> =
        Rc::new(UnsafeCell::new(std::mem::MaybeUninit::uninit()));
    unsafe { std::mem::transmute::<_, ThreadRng>(r) }
}

pub trait Sl {
    fn sl(&mut self) -> &mut [usize];
}
impl Sl for [usize] {
    fn sl(&mut self) -> &mut [usize] {
        self
    }
}
/// Replaces `rand::seq::SliceRandom::shuffle`: applies an arbitrary permutation
/// (Fisher-Yates with symbolic picks), i.e. the schedule is a solver variable.
#[cfg(kani)]
pub fn any_perm<S: ?Sized + Sl, R: ?Sized>(s: &mut S, _rng: &mut R) {
    let s = s.sl();
    let n = s.len();
    for i in 0..n {
        let j: usize = kani::any();
        kani::assume(j >= i && j < n);
        s.swap(i, j);
    }
}

pub fn trap_because(_e: FailedError, _m: &str) -> Failed {
    panic!("VP:unexpected-err")
}
pub fn trap_fit(_m: &str) -> Failed {
    panic!("VP:unexpected-err")
}
pub fn trap_predict(_m: &str) -> Failed {
    panic!("VP:unexpected-err")
}
pub fn trap_transform(_m: &str) -> Failed {
    panic!("VP:unexpected-err")
}
pub fn no_format(_a: std::fmt::Arguments<'_>) -> String {
    String::new()
}
pub fn hyp32(x: f32, y: f32) -> f32 {
    (x * x + y * y).sqrt()
}
pub fn hyp64(x: f64, y: f64) -> f64 {
    (x * x + y * y).sqrt()
}

/// `powi` is an over-approximated intrinsic in CBMC; replaced by repeated multiplication (exact for |n| <= 4)
pub fn powi64(x: f64, n: i32) -> f64 {
    let mut r = 1.0f64;
    let mut k = 0;
    let m = if n < 0 { -n } else { n };
    while k < m && k < 4 {
        r *= x;
        k += 1;
    }
    if n < 0 {
        1.0 / r
    } else {
        r
    }
}
pub fn powi32(x: f32, n: i32) -> f32 {
    let mut r = 1.0f32;
    let mut k = 0;
    let m = if n < 0 { -n } else { n };
    while k < m && k < 4 {
        r *= x;
        k += 1;
    }
    if n < 0 {
        1.0 / r
    } else {
        r
    }
}

// recorders: deterministic surrogates that log the arguments they are called with
pub const LOGN: usize = 16;
pub static mut LOG64: [f64; LOGN] = [0.0; LOGN];
pub static mut NLOG64: usize = 0;
pub static mut LOG32: [f32; LOGN] = [0.0; LOGN];
pub static mut NLOG32: usize = 0;

pub fn log64(x: f64) {
    unsafe {
        if NLOG64 < LOGN {
            LOG64[NLOG64] = x;
        }
        NLOG64 += 1;
    }
}
pub fn log32(x: f32) {
    unsafe {
        if NLOG32 < LOGN {
            LOG32[NLOG32] = x;
        }
        NLOG32 += 1;
    }
}
pub fn nlog64() -> usize {
    unsafe { NLOG64 }
}
pub fn getlog64(i: usize) -> f64 {
    unsafe { LOG64[i] }
}
pub fn nlog32() -> usize {
    unsafe { NLOG32 }
}
pub fn getlog32(i: usize) -> f32 {
    unsafe { LOG32[i] }
}
/// `exp` surrogate: identity + log
pub fn rec_exp64(x: f64) -> f64 {
    log64(x);
    x
}
pub fn rec_exp32(x: f32) -> f32 {
    log32(x);
    x
}
/// `exp` surrogate with distinct constant results: the i-th call returns 2^i (and logs its argument), so that
/// everything computed from the results is constant arithmetic while the arguments stay symbolic
pub fn rec_exp_pow2_64(x: f64) -> f64 {
    let i = nlog64();
    log64(x);
    (1u64 << (i as u32 & 31)) as f64
}
/// `powf` surrogate: returns the base, logs (base, exponent)
pub fn rec_powf64(b: f64, e: f64) -> f64 {
    log64(b);
    log64(e);
    b
}
pub fn rec_powf32(b: f32, e: f32) -> f32 {
    log32(b);
    log32(e);
    b
}
/// semantic `powf` for the exponents a Minkowski distance of order 1..3 needs: exact products for 1, 2, 3, sqrt for 1/2 and a
/// *specification* for 1/3 (any c >= 0 with c^3 = b up to rounding).  Lets the harness check VALUES without CBMC's libm model.
#[cfg(kani)]
pub fn powf_sem64(b: f64, e: f64) -> f64 {
    if e == 1.0 {
        b
    } else if e == 2.0 {
        b * b
    } else if e == 3.0 {
        b * b * b
    } else if e == 4.0 {
        (b * b) * (b * b)
    } else if e == 0.5 {
        b.sqrt()
    } else {
        assert!(e == 1.0 / 3.0, "VP:unexpected-powf-exponent");
        if b == 0.0 {
            return 0.0;
        }
        let c: f64 = kani::any();
        kani::assume(c >= 0.0 && (c * c * c - b).abs() <= 1e-12 * (1.0 + b.abs()));
        c
    }
}
#[cfg(kani)]
pub fn powf_sem32(b: f32, e: f32) -> f32 {
    if e == 1.0 {
        b
    } else if e == 2.0 {
        b * b
    } else if e == 3.0 {
        b * b * b
    } else if e == 0.5 {
        b.sqrt()
    } else {
        assert!(e == 1.0 / 3.0, "VP:unexpected-powf-exponent");
        if b == 0.0 {
            return 0.0;
        }
        let c: f32 = kani::any();
        kani::assume(c >= 0.0 && (c * c * c - b).abs() <= 1e-5 * (1.0 + b.abs()));
        c
    }
}
pub fn rec_tanh64(x: f64) -> f64 {
    log64(x);
    x
}
pub fn rec_ln64(x: f64) -> f64 {
    log64(x);
    x
}

// ---------------------------------------------------------------------------------------------
// attribute bundles
// ---------------------------------------------------------------------------------------------

/// plain proof harness
#[macro_export]
macro_rules! vp_proof {
    ($(#[$m:meta])* fn $name:ident() $body:block) => {
        #[cfg_attr(kani, kani::proof)]
        $(#[$m])*
        pub fn $name() $body
    };
}

/// proof harness whose assumptions imply success: error constructors trapped (R6), no formatting (R5)
#[macro_export]
macro_rules! vp_proof_traps {
    ($(#[$m:meta])* fn $name:ident() $body:block) => {
        #[cfg_attr(kani, kani::proof)]
        #[cfg_attr(kani, kani::stub(smartcore::error::Failed::because, $crate::common::trap_because))]
        #[cfg_attr(kani, kani::stub(smartcore::error::Failed::fit, $crate::common::trap_fit))]
        #[cfg_attr(kani, kani::stub(smartcore::error::Failed::predict, $crate::common::trap_predict))]
        #[cfg_attr(kani, kani::stub(smartcore::error::Failed::transform, $crate::common::trap_transform))]
        #[cfg_attr(kani, kani::stub(std::fmt::format, $crate::common::no_format))]
        $(#[$m])*
        pub fn $name() $body
    };
}

/// proof harness that only tests is_err()/is_ok(): no formatting
#[macro_export]
macro_rules! vp_proof_nofmt {
    ($(#[$m:meta])* fn $name:ident() $body:block) => {
        #[cfg_attr(kani, kani::proof)]
        #[cfg_attr(kani, kani::stub(std::fmt::format, $crate::common::no_format))]
        $(#[$m])*
        pub fn $name() $body
    };
}
