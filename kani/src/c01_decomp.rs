//! C01 — LU, Cholesky, QR and one-column SVD: factor structure, reconstruction and solves (smallest shapes).
use crate::common::*;
use smartcore::linalg::cholesky::CholeskyDecomposableMatrix;
use smartcore::linalg::lu::LUDecomposableMatrix;
use smartcore::linalg::qr::QRDecomposableMatrix;
use smartcore::linalg::svd::SVDDecomposableMatrix;

const E32: f32 = f32::EPSILON;

/// attribute bundle: success expected (error constructors trapped), no formatting, hypot = sqrt(x^2+y^2)
macro_rules! dec_proof {
    ($(#[$m:meta])* fn $name:ident() $body:block) => {
        #[cfg_attr(kani, kani::proof)]
        #[cfg_attr(kani, kani::stub(smartcore::error::Failed::because, crate::common::trap_because))]
        #[cfg_attr(kani, kani::stub(smartcore::error::Failed::fit, crate::common::trap_fit))]
        #[cfg_attr(kani, kani::stub(smartcore::error::Failed::predict, crate::common::trap_predict))]
        #[cfg_attr(kani, kani::stub(smartcore::error::Failed::transform, crate::common::trap_transform))]
        #[cfg_attr(kani, kani::stub(std::fmt::format, crate::common::no_format))]
        #[cfg_attr(kani, kani::stub(f32::hypot, crate::common::hyp32))]
        #[cfg_attr(kani, kani::stub(f64::hypot, crate::common::hyp64))]
        $(#[$m])*
        pub fn $name() $body
    };
}

fn latmat32<const N: usize>(lo: i8, hi: i8) -> ([i32; N], [f32; N]) {
    let mut i = [0i32; N];
    let mut f = [0f32; N];
    for t in 0..N {
        let (a, b) = lat32(lo, hi);
        i[t] = a;
        f[t] = b;
    }
    (i, f)
}

// ---------------------------------------------------------------------------------------------
// LU: structure for every finite input
// ---------------------------------------------------------------------------------------------
// @vp name=c01_lu_structure_2x2 prop=C01 tier=quick t=480 fns=lu_mut,LU::L,LU::U,LU::pivot size=2x2 dom=any-finite-f32 stubs=traps,no_format
dec_proof! {
    #[cfg_attr(kani, kani::unwind(5))]
    fn c01_lu_structure_2x2() {
        let a: [f32; 4] = kani::any();
        for t in 0..4 {
            kani::assume(a[t].is_finite());
        }
        let m = DenseMatrix::from_array(2, 2, &a);
        let lu = match m.lu() {
            Ok(lu) => lu,
            Err(_) => vp_fail!("C01:lu-failed"),
        };
        let (l, u, p) = (lu.L(), lu.U(), lu.pivot());
        vp_assert!(l.get(0, 0) == 1.0 && l.get(1, 1) == 1.0 && l.get(0, 1) == 0.0, "C01:lu-L-unit-lower-triangular");
        vp_assert!(u.get(1, 0) == 0.0, "C01:lu-U-upper-triangular");
        // permutation matrix: entries 0/1, one 1 per row and per column
        let mut rs = [0.0f32; 2];
        let mut cs = [0.0f32; 2];
        for i in 0..2 {
            for j in 0..2 {
                let v = p.get(i, j);
                vp_assert!(v == 0.0 || v == 1.0, "C01:lu-P-is-a-permutation");
                rs[i] += v;
                cs[j] += v;
            }
        }
        vp_assert!(rs[0] == 1.0 && rs[1] == 1.0 && cs[0] == 1.0 && cs[1] == 1.0, "C01:lu-P-is-a-permutation");
        // partial pivoting: multipliers bounded by one
        let l10 = l.get(1, 0);
        vp_assert!(l10.is_nan() || l10.abs() <= 1.0, "C01:lu-partial-pivoting-multiplier-bounded");
        // the pivot row really is the one with the larger leading entry
        if a[0].abs() > a[2].abs() {
            vp_assert!(p.get(0, 0) == 1.0, "C01:lu-pivot-picks-largest-leading-entry");
        }
        if a[2].abs() > a[0].abs() {
            vp_assert!(p.get(0, 1) == 1.0, "C01:lu-pivot-picks-largest-leading-entry");
        }
        vp_reached!();
    }
}

// LU reconstruction, inverse and solve on the integer lattice (non-singular)
// @vp name=c01_lu_reconstruct_2x2 prop=C01 tier=quick t=480 fns=lu_mut,LU::L,LU::U,LU::pivot,matmul size=2x2 dom=lattice(-4..4),det!=0,f32 stubs=traps,no_format
dec_proof! {
    #[cfg_attr(kani, kani::unwind(5))]
    fn c01_lu_reconstruct_2x2() {
        let (ai, a) = latmat32::<4>(-4, 4);
        let det = ai[0] * ai[3] - ai[1] * ai[2];
        kani::assume(det != 0);
        let m = DenseMatrix::from_array(2, 2, &a);
        let lu = match m.lu() {
            Ok(lu) => lu,
            Err(_) => vp_fail!("C01:lu-failed"),
        };
        let (l, u, p) = (lu.L(), lu.U(), lu.pivot());
        let pa = p.matmul(&m);
        let lxu = l.matmul(&u);
        for i in 0..2 {
            for j in 0..2 {
                vp_assert!((pa.get(i, j) - lxu.get(i, j)).abs() <= 16.0 * E32 * 4.0, "C01:lu-PA-equals-LU");
            }
        }
        vp_reached!();
    }
}

// @vp name=c01_lu_inverse_solve_2x2 prop=C01 tier=quick t=480 fns=lu_mut,LU::inverse,lu_solve_mut size=2x2,rhs-2x1 dom=lattice(-4..4),det!=0,f32 stubs=traps,no_format
dec_proof! {
    #[cfg_attr(kani, kani::unwind(5))]
    fn c01_lu_inverse_solve_2x2() {
        let (ai, a) = latmat32::<4>(-4, 4);
        let (bi, b) = latmat32::<2>(-4, 4);
        let det = ai[0] * ai[3] - ai[1] * ai[2];
        kani::assume(det != 0);
        let m = DenseMatrix::from_array(2, 2, &a);
        let lu = match m.lu() {
            Ok(lu) => lu,
            Err(_) => vp_fail!("C01:lu-failed"),
        };
        let inv = match lu.inverse() {
            Ok(x) => x,
            Err(_) => vp_fail!("C01:lu-inverse-failed"),
        };
        // inverse * det = adjugate (exact rational check)
        let adj = [ai[3], -ai[1], -ai[2], ai[0]];
        for i in 0..2 {
            for j in 0..2 {
                vp_assert!((inv.get(i, j) * det as f32 - adj[i * 2 + j] as f32).abs() <= 64.0 * E32 * 8.0, "C01:lu-inverse");
            }
        }
        let rhs = DenseMatrix::from_array(2, 1, &b);
        let x = match m.clone().lu_solve_mut(rhs) {
            Ok(x) => x,
            Err(_) => vp_fail!("C01:lu-solve-failed"),
        };
        // Cramer: x0 = (b0 a11 - a01 b1)/det, x1 = (a00 b1 - b0 a10)/det
        let n0 = bi[0] * ai[3] - ai[1] * bi[1];
        let n1 = ai[0] * bi[1] - bi[0] * ai[2];
        vp_assert!((x.get(0, 0) * det as f32 - n0 as f32).abs() <= 64.0 * E32 * 64.0, "C01:lu-solve");
        vp_assert!((x.get(1, 0) * det as f32 - n1 as f32).abs() <= 64.0 * E32 * 64.0, "C01:lu-solve");
        vp_reached!();
    }
}

// @vp name=c01_lu_reconstruct_3x3 prop=C01 tier=quick t=480 fns=lu_mut,LU::L,LU::U,LU::pivot,matmul size=3x3 dom=lattice(-2..2),det!=0,f32 stubs=traps,no_format
dec_proof! {
    #[cfg_attr(kani, kani::unwind(11))]
    fn c01_lu_reconstruct_3x3() {
        let (ai, a) = latmat32::<9>(-2, 2);
        let det = ai[0] * (ai[4] * ai[8] - ai[5] * ai[7]) - ai[1] * (ai[3] * ai[8] - ai[5] * ai[6]) + ai[2] * (ai[3] * ai[7] - ai[4] * ai[6]);
        kani::assume(det != 0);
        let m = DenseMatrix::from_array(3, 3, &a);
        let lu = match m.lu() {
            Ok(lu) => lu,
            Err(_) => vp_fail!("C01:lu-failed"),
        };
        let (l, u, p) = (lu.L(), lu.U(), lu.pivot());
        for i in 0..3 {
            for j in 0..3 {
                if j > i {
                    vp_assert!(l.get(i, j) == 0.0, "C01:lu-L-unit-lower-triangular");
                }
                if j == i {
                    vp_assert!(l.get(i, j) == 1.0, "C01:lu-L-unit-lower-triangular");
                }
                if j < i {
                    vp_assert!(u.get(i, j) == 0.0, "C01:lu-U-upper-triangular");
                    vp_assert!(l.get(i, j).abs() <= 1.0, "C01:lu-partial-pivoting-multiplier-bounded");
                }
            }
        }
        let pa = p.matmul(&m);
        let lxu = l.matmul(&u);
        for i in 0..3 {
            for j in 0..3 {
                vp_assert!((pa.get(i, j) - lxu.get(i, j)).abs() <= 64.0 * E32 * 2.0, "C01:lu-PA-equals-LU");
            }
        }
        vp_reached!();
    }
}

// ---------------------------------------------------------------------------------------------
// Cholesky
// ---------------------------------------------------------------------------------------------
// a symmetric matrix with a diagonal entry <= -1 has an eigenvalue <= -1: must be rejected
// @vp name=c01_cholesky_rejects_indefinite_2x2 prop=C01 tier=quick t=480 fns=cholesky_mut size=2x2 dom=any-finite-f64,symmetric,a-diagonal-entry<=-1 stubs=no_format
vp_proof_nofmt! {
    #[cfg_attr(kani, kani::unwind(5))]
    fn c01_cholesky_rejects_indefinite_2x2() {
        let a = finite64();
        let b = finite64();
        let d = finite64();
        kani::assume(a.abs() <= 1e100 && b.abs() <= 1e100 && d.abs() <= 1e100);
        kani::assume(a <= -1.0 || d <= -1.0);
        let m = DenseMatrix::from_array(2, 2, &[a, b, b, d]);
        vp_assert!(m.cholesky().is_err(), "C01:cholesky-accepts-matrix-with-negative-eigenvalue");
        vp_reached!();
    }
}
// @vp name=c01_cholesky_rejects_negative_1x1 prop=C01 tier=quick t=300 fns=cholesky_mut size=1x1 dom=any-finite-f64<=-1 stubs=no_format
vp_proof_nofmt! {
    #[cfg_attr(kani, kani::unwind(5))]
    fn c01_cholesky_rejects_negative_1x1() {
        let a = finite64();
        kani::assume(a <= -1.0);
        let m = DenseMatrix::from_array(1, 1, &[a]);
        vp_assert!(m.cholesky().is_err(), "C01:cholesky-accepts-matrix-with-negative-eigenvalue");
        let r = DenseMatrix::from_array(1, 2, &[1.0, 2.0]);
        vp_assert!(r.cholesky().is_err(), "C01:cholesky-accepts-non-square");
        vp_reached!();
    }
}

// factor recovered from an integer factor: A = L0 L0^T, L0 lower triangular with positive diagonal
// @vp name=c01_cholesky_factor_2x2 prop=C01 tier=quick t=480 fns=cholesky_mut,Cholesky::L,Cholesky::U,cholesky_solve_mut size=2x2,rhs-2x1 dom=A=L0*L0^T,L0-lattice,diag1..4,f32 stubs=traps,no_format
dec_proof! {
    #[cfg_attr(kani, kani::unwind(5))]
    fn c01_cholesky_factor_2x2() {
        let l11 = lat(1, 4);
        let l21 = lat(-4, 4);
        let l22 = lat(1, 4);
        let a = (l11 * l11) as f32;
        let b = (l21 * l11) as f32;
        let d = (l21 * l21 + l22 * l22) as f32;
        let m = DenseMatrix::from_array(2, 2, &[a, b, b, d]);
        let c = match m.cholesky() {
            Ok(c) => c,
            Err(_) => vp_fail!("C01:cholesky-failed-on-spd"),
        };
        let l = c.L();
        let u = c.U();
        vp_assert!(l.get(0, 1) == 0.0 && u.get(1, 0) == 0.0, "C01:cholesky-L-lower-triangular");
        vp_assert!((l.get(0, 0) - l11 as f32).abs() <= 8.0 * E32 * 4.0, "C01:cholesky-factor");
        vp_assert!((l.get(1, 0) - l21 as f32).abs() <= 8.0 * E32 * 4.0, "C01:cholesky-factor");
        vp_assert!((l.get(1, 1) - l22 as f32).abs() <= 32.0 * E32 * 4.0, "C01:cholesky-factor");
        for i in 0..2 {
            for j in 0..2 {
                vp_assert!(same32(u.get(i, j), l.get(j, i)), "C01:cholesky-U-is-L-transposed");
            }
        }
        // solve A x = b with b = A * x0 for an integer x0
        let (x0, x1) = (lat(-3, 3), lat(-3, 3));
        let b0 = (l11 * l11) * x0 + (l21 * l11) * x1;
        let b1 = (l21 * l11) * x0 + (l21 * l21 + l22 * l22) * x1;
        let rhs = DenseMatrix::from_array(2, 1, &[b0 as f32, b1 as f32]);
        let x = match m.clone().cholesky_solve_mut(rhs) {
            Ok(x) => x,
            Err(_) => vp_fail!("C01:cholesky-solve-failed"),
        };
        vp_assert!((x.get(0, 0) - x0 as f32).abs() <= 1e-3 && (x.get(1, 0) - x1 as f32).abs() <= 1e-3, "C01:cholesky-solve");
        vp_reached!();
    }
}

// ---------------------------------------------------------------------------------------------
// QR
// ---------------------------------------------------------------------------------------------
// 1x1 at every scale 1e-12..1e12: Q*R = A.  |a| below machine epsilon is the known finding C01-qr-absolute-epsilon.
macro_rules! qr_1x1 {
    ($name:ident, $elo:expr, $ehi:expr) => {
        dec_proof! {
            #[cfg_attr(kani, kani::unwind(5))]
            fn $name() {
                // a = +-k * 2^e, k in 1..15: every sign, 4-bit mantissas, every binary scale in the stated range
                let k = lat(1, 15);
                let neg: bool = kani::any();
                let e: i8 = kani::any();
                kani::assume(e >= $elo && e <= $ehi);
                let scale = f32::from_bits(((127i32 + e as i32) as u32) << 23);
                let a = if neg { -(k as f32) * scale } else { (k as f32) * scale };
                let m = DenseMatrix::from_array(1, 1, &[a]);
                let qr = match m.qr() {
                    Ok(q) => q,
                    Err(_) => vp_fail!("C01:qr-failed"),
                };
                let (q, r) = (qr.Q(), qr.R());
                let p = q.get(0, 0) * r.get(0, 0);
                vp_assert!((p - a).abs() <= 8.0 * E32 * a.abs(), "C01:qr-QR-equals-A");
                vp_assert!((q.get(0, 0).abs() - 1.0).abs() <= 8.0 * E32, "C01:qr-Q-orthonormal");
                vp_reached!();
            }
        }
    };
}
// @vp name=c01_qr_1x1_scales prop=C01 tier=quick t=480 fns=qr_mut,QR::Q,QR::R size=1x1 dom=f32,a=+-k*2^e,k1..15,e-22..36(2.4e-7..1e12) stubs=traps,no_format,hyp32
qr_1x1!(c01_qr_1x1_scales, -22, 36);
// @vp name=c01_qr_1x1_tiny prop=C01 tier=quick t=480 fns=qr_mut,QR::Q,QR::R size=1x1 dom=f32,a=+-k*2^e,k1..15,e-40..-27(9e-13..1.1e-7) stubs=traps,no_format,hyp32 kf=C01-qr-absolute-epsilon
qr_1x1!(c01_qr_1x1_tiny, -40, -27);

// 2x1 (tall): R upper (1x1), Q^T Q = 1, Q R = A, least squares solve
// @vp name=c01_qr_2x1 prop=C01 tier=quick t=480 fns=qr_mut,QR::Q,QR::R,qr_solve_mut size=2x1,rhs-2x1 dom=lattice(-4..4),nonzero-column,f32 stubs=traps,no_format,hyp32
dec_proof! {
    #[cfg_attr(kani, kani::unwind(5))]
    fn c01_qr_2x1() {
        let (ai, a) = latmat32::<2>(-4, 4);
        let (bi, b) = latmat32::<2>(-4, 4);
        kani::assume(ai[0] != 0 || ai[1] != 0);
        let m = DenseMatrix::from_array(2, 1, &a);
        let qr = match m.qr() {
            Ok(q) => q,
            Err(_) => vp_fail!("C01:qr-failed"),
        };
        let (q, r) = (qr.Q(), qr.R());
        let n2 = (ai[0] * ai[0] + ai[1] * ai[1]) as f32;
        vp_assert!(q.shape() == (2, 1) && r.shape() == (1, 1), "C01:qr-shapes");
        let qq = q.get(0, 0) * q.get(0, 0) + q.get(1, 0) * q.get(1, 0);
        vp_assert!((qq - 1.0).abs() <= 16.0 * E32, "C01:qr-Q-orthonormal");
        vp_assert!((r.get(0, 0) * r.get(0, 0) - n2).abs() <= 16.0 * E32 * n2, "C01:qr-R-norm");
        for i in 0..2 {
            vp_assert!((q.get(i, 0) * r.get(0, 0) - a[i]).abs() <= 16.0 * E32 * 6.0, "C01:qr-QR-equals-A");
        }
        // least squares: x = (a.b)/(a.a)
        let rhs = DenseMatrix::from_array(2, 1, &b);
        let x = match m.clone().qr_solve_mut(rhs) {
            Ok(x) => x,
            Err(_) => vp_fail!("C01:qr-solve-failed"),
        };
        let ab = (ai[0] * bi[0] + ai[1] * bi[1]) as f32;
        vp_assert!((x.get(0, 0) * n2 - ab).abs() <= 64.0 * E32 * 64.0, "C01:qr-least-squares-solution");
        vp_reached!();
    }
}

// @vp name=c01_qr_2x2 prop=C01 tier=thorough t=3600 fns=qr_mut,QR::Q,QR::R size=2x2 dom=lattice(-3..3),det!=0,f32 stubs=traps,no_format,hyp32
dec_proof! {
    #[cfg_attr(kani, kani::unwind(5))]
    fn c01_qr_2x2() {
        let (ai, a) = latmat32::<4>(-3, 3);
        kani::assume(ai[0] * ai[3] - ai[1] * ai[2] != 0);
        let m = DenseMatrix::from_array(2, 2, &a);
        let qr = match m.qr() {
            Ok(q) => q,
            Err(_) => vp_fail!("C01:qr-failed"),
        };
        let (q, r) = (qr.Q(), qr.R());
        vp_assert!(r.get(1, 0) == 0.0, "C01:qr-R-upper-triangular");
        let p = q.matmul(&r);
        let qtq = q.transpose().matmul(&q);
        for i in 0..2 {
            for j in 0..2 {
                vp_assert!((p.get(i, j) - a[i * 2 + j]).abs() <= 64.0 * E32 * 6.0, "C01:qr-QR-equals-A");
                vp_assert!((qtq.get(i, j) - if i == j { 1.0 } else { 0.0 }).abs() <= 64.0 * E32, "C01:qr-Q-orthonormal");
            }
        }
        vp_reached!();
    }
}

// ---------------------------------------------------------------------------------------------
// SVD of a single column (the only SVD shape whose sweep loop is bounded by the data-independent path)
// ---------------------------------------------------------------------------------------------
macro_rules! svd_col {
    ($name:ident, $n:expr, $unw:expr) => {
        dec_proof! {
            #[cfg_attr(kani, kani::unwind($unw))]
            fn $name() {
                const N: usize = $n;
                let (ai, a) = latmat32::<N>(-4, 4);
                let mut n2i = 0i32;
                for t in 0..N {
                    n2i += ai[t] * ai[t];
                }
                kani::assume(n2i != 0);
                let m = DenseMatrix::from_array(N, 1, &a);
                let s = match m.svd() {
                    Ok(s) => s,
                    Err(_) => vp_fail!("C01:svd-failed"),
                };
                vp_assert!(s.s.len() == 1 && s.s[0] >= 0.0, "C01:svd-singular-values-nonnegative");
                let n2 = n2i as f32;
                vp_assert!((s.s[0] * s.s[0] - n2).abs() <= 32.0 * E32 * n2, "C01:svd-singular-value-is-column-norm");
                vp_assert!(s.U.shape() == (N, 1) && s.V.shape() == (1, 1), "C01:svd-shapes");
                let v = s.V.get(0, 0);
                vp_assert!((v.abs() - 1.0).abs() <= 16.0 * E32, "C01:svd-V-orthonormal");
                let mut uu = 0f32;
                for t in 0..N {
                    uu += s.U.get(t, 0) * s.U.get(t, 0);
                    vp_assert!((s.U.get(t, 0) * s.s[0] * v - a[t]).abs() <= 64.0 * E32 * 8.0, "C01:svd-USVt-equals-A");
                }
                vp_assert!((uu - 1.0).abs() <= 32.0 * E32, "C01:svd-U-orthonormal");
                vp_reached!();
            }
        }
    };
}
// @vp name=c01_svd_1x1 prop=C01 tier=quick t=480 fns=svd_mut,SVD::new size=1x1 dom=lattice(-4..4),nonzero,f32 stubs=traps,no_format,hyp32
svd_col!(c01_svd_1x1, 1, 5);
// @vp name=c01_svd_2x1 prop=C01 tier=quick t=480 fns=svd_mut,SVD::new size=2x1 dom=lattice(-4..4),nonzero,f32 stubs=traps,no_format,hyp32
svd_col!(c01_svd_2x1, 2, 5);
// @vp name=c01_svd_3x1 prop=C01 tier=thorough t=3600 fns=svd_mut,SVD::new size=3x1 dom=lattice(-4..4),nonzero,f32 stubs=traps,no_format,hyp32
svd_col!(c01_svd_3x1, 3, 6);

// NOTE: the SVD of a DIAGONAL 3x3 lattice matrix (nothing to reduce, only sign fixing and the ordering pass over symbolic
// values) was tried with unwind 32 (the code's 30-sweep cap): not finished in 25 min.  Ordering of singular values for more than
// one column therefore stays outside the claim; the seeded changes C01-2 and C07-1 (both in the shell sort of svd_mut) are missed.

// SVD solve on a single column: least-squares solution x = (a.b)/(a.a); a zero column (rank deficient) gives the minimum-norm solution 0
// @vp name=c01_svd_solve_2x1 prop=C01 tier=quick t=480 fns=svd_mut,SVD::solve,svd_solve_mut size=2x1,rhs-2x1 dom=lattice(-4..4),nonzero-column,f32 stubs=traps,no_format,hyp32
dec_proof! {
    #[cfg_attr(kani, kani::unwind(5))]
    fn c01_svd_solve_2x1() {
        let (ai, a) = latmat32::<2>(-4, 4);
        let (bi, b) = latmat32::<2>(-4, 4);
        let n2 = ai[0] * ai[0] + ai[1] * ai[1];
        kani::assume(n2 != 0);
        let m = DenseMatrix::from_array(2, 1, &a);
        let x = match m.svd_solve_mut(DenseMatrix::from_array(2, 1, &b)) {
            Ok(x) => x,
            Err(_) => vp_fail!("C01:svd-solve-failed"),
        };
        let ab = (ai[0] * bi[0] + ai[1] * bi[1]) as f32;
        vp_assert!((x.get(0, 0) * n2 as f32 - ab).abs() <= 1e-3, "C01:svd-least-squares-solution");
        vp_reached!();
    }
}
// @vp name=c01_svd_solve_zero_column prop=C01 tier=quick t=480 fns=svd_mut,SVD::solve,svd_solve_mut size=2x1-zero,rhs-2x1 dom=rhs-lattice(-4..4),f32 stubs=traps,no_format,hyp32
dec_proof! {
    #[cfg_attr(kani, kani::unwind(5))]
    fn c01_svd_solve_zero_column() {
        let (_bi, b) = latmat32::<2>(-4, 4);
        let m = DenseMatrix::from_array(2, 1, &[0.0f32, 0.0]);
        let x = match m.svd_solve_mut(DenseMatrix::from_array(2, 1, &b)) {
            Ok(x) => x,
            Err(_) => vp_fail!("C01:svd-solve-failed"),
        };
        vp_assert!(x.get(0, 0) == 0.0, "C01:svd-rank-deficient-minimum-norm-solution");
        vp_reached!();
    }
}

// @vp name=c01_cholesky_factor_3x3 prop=C01 tier=thorough t=3000 fns=cholesky_mut,Cholesky::L size=3x3 dom=A=L0*L0^T,L0-lattice(-2..2),diag1..3,f32 stubs=traps,no_format
dec_proof! {
    #[cfg_attr(kani, kani::unwind(6))]
    fn c01_cholesky_factor_3x3() {
        let l = [lat(1, 3), lat(-2, 2), lat(1, 3), lat(-2, 2), lat(-2, 2), lat(1, 3)]; // l11, l21, l22, l31, l32, l33
        let l0 = [[l[0], 0, 0], [l[1], l[2], 0], [l[3], l[4], l[5]]];
        let mut a = [0f32; 9];
        for i in 0..3 {
            for j in 0..3 {
                let mut s = 0i32;
                for k in 0..3 {
                    s += l0[i][k] * l0[j][k];
                }
                a[i * 3 + j] = s as f32;
            }
        }
        let m = DenseMatrix::from_array(3, 3, &a);
        let c = match m.cholesky() {
            Ok(c) => c,
            Err(_) => vp_fail!("C01:cholesky-failed-on-spd"),
        };
        let lf = c.L();
        for i in 0..3 {
            for j in 0..3 {
                vp_assert!((lf.get(i, j) - l0[i][j] as f32).abs() <= 1e-3, "C01:cholesky-factor");
            }
        }
        vp_reached!();
    }
}
