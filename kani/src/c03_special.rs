//! C03 (part 3) — variance / std / scaling accuracy under a large common offset, softmax is a
//! probability vector, and the shape contracts (incompatible operands are rejected).
use crate::common::*;
use smartcore::linalg::high_order::HighOrderOperations;
use smartcore::linalg::stats::MatrixStats;

// ---------------------------------------------------------------------------------------------
// var / std with a common offset: x_i = c + k_i, k_i on the lattice, c a (large) integer offset.
// population variance = (n * sum k^2 - (sum k)^2) / n^2, independent of c.
// ---------------------------------------------------------------------------------------------
macro_rules! var_offset {
    ($name:ident, $ft:ty, $powi:path, $stubbed:path, $cmin:expr, $cmax:expr, $variant:expr, $tol:expr) => {
        #[cfg_attr(kani, kani::proof)]
        #[cfg_attr(kani, kani::unwind(6))]
        #[cfg_attr(kani, kani::stub($powi, $stubbed))]
        pub fn $name() {
            let c: i32 = kani::any();
            kani::assume(c >= -$cmax && c <= $cmax && (c >= $cmin || c <= -$cmin));
            let mut k = [0i32; 3];
            let mut x = [0 as $ft; 3];
            for t in 0..3 {
                k[t] = lat(-4, 4);
                x[t] = (c + k[t]) as $ft;
            }
            let sk = k[0] + k[1] + k[2];
            let sk2 = k[0] * k[0] + k[1] * k[1] + k[2] * k[2];
            let truth = (3 * sk2 - sk * sk) as $ft / 9.0;
            let v: $ft = match $variant {
                0 => BaseVector::var(&x.to_vec()),
                1 => DenseMatrix::from_array(3, 1, &x).var(0)[0],
                _ => DenseMatrix::from_array(1, 3, &x).var(1)[0],
            };
            vp_assert!((v - truth).abs() <= $tol * (truth + 1e-2), "C03:var-accurate-relative-to-spread");
            vp_reached!();
        }
    };
}
// residual runs: offsets up to 16 (so that |mean|/spread stays moderate): must hold
// @vp name=c03_var_small_vec_f32 prop=C03 tier=quick t=480 fns=BaseVector::var size=n=3 dom=x=c+k,|c|<=16,k-lattice(-4..4),f32 stubs=powi32
var_offset!(c03_var_small_vec_f32, f32, f32::powi, crate::common::powi32, 0, 16, 0, 1e-3);
// @vp name=c03_var_small_axis0_f32 prop=C03 tier=quick t=480 fns=MatrixStats::var size=3x1,axis=0 dom=x=c+k,|c|<=16,k-lattice(-4..4),f32 stubs=powi32
var_offset!(c03_var_small_axis0_f32, f32, f32::powi, crate::common::powi32, 0, 16, 1, 1e-3);
// @vp name=c03_var_small_axis1_f32 prop=C03 tier=quick t=480 fns=MatrixStats::var size=1x3,axis=1 dom=x=c+k,|c|<=16,k-lattice(-4..4),f32 stubs=powi32
var_offset!(c03_var_small_axis1_f32, f32, f32::powi, crate::common::powi32, 0, 16, 2, 1e-3);
// witness runs of the known finding C03-var-naive-offset: every larger offset
// @vp name=c03_var_large_vec_f32 prop=C03 tier=quick t=480 fns=BaseVector::var size=n=3 dom=x=c+k,16<|c|<=2^20,k-lattice(-4..4),f32 stubs=powi32 kf=C03-var-naive-offset
var_offset!(c03_var_large_vec_f32, f32, f32::powi, crate::common::powi32, 17, 1048576, 0, 1e-3);
// @vp name=c03_var_large_axis0_f64 prop=C03 tier=quick t=480 fns=MatrixStats::var size=3x1,axis=0 dom=x=c+k,2^20<|c|<=2^27,k-lattice(-4..4),f64 stubs=powi64 kf=C03-var-naive-offset
var_offset!(c03_var_large_axis0_f64, f64, f64::powi, crate::common::powi64, 1048577, 134217728, 1, 1e-6);
// @vp name=c03_var_small_vec_f64 prop=C03 tier=thorough t=3600 fns=BaseVector::var size=n=3 dom=x=c+k,|c|<=64,k-lattice(-4..4),f64 stubs=powi64
var_offset!(c03_var_small_vec_f64, f64, f64::powi, crate::common::powi64, 0, 64, 0, 1e-6);

// std and scale_mut: standardised column has the exact z-scores (two distinct values -> +-1); small offsets only
// (large offsets are the known finding C03-var-naive-offset)
// @vp name=c03_std_scale_n2 prop=C03 tier=quick t=480 fns=MatrixStats::std,MatrixStats::mean,MatrixStats::scale_mut,BaseVector::std size=2x1 dom=x=c+k,|c|<=16,k-lattice(-4..4),f32 stubs=powi32
vp_proof! {
    #[cfg_attr(kani, kani::unwind(6))]
    #[cfg_attr(kani, kani::stub(f32::powi, crate::common::powi32))]
    fn c03_std_scale_n2() {
        let c = lat(-16, 16);
        let k0 = lat(-4, 4);
        let k1 = lat(-4, 4);
        kani::assume(k0 != k1);
        let x = [(c + k0) as f32, (c + k1) as f32];
        let mut m = DenseMatrix::from_array(2, 1, &x);
        let mean = m.mean(0);
        let std = m.std(0);
        let sv = BaseVector::std(&x.to_vec());
        let truth = (k0 - k1).abs() as f32 / 2.0; // population std of two values
        vp_assert!((std[0] - truth).abs() <= 1e-3 * truth, "C03:std-accurate");
        vp_assert!((sv - truth).abs() <= 1e-3 * truth, "C03:vec-std-accurate");
        vp_assert!(mean[0] == (2 * c + k0 + k1) as f32 / 2.0, "C03:mean-axis0");
        m.scale_mut(&mean, &std, 0);
        let z0 = if k0 > k1 { 1.0 } else { -1.0 };
        vp_assert!((m.get(0, 0) - z0).abs() <= 1e-2 && (m.get(1, 0) + z0).abs() <= 1e-2, "C03:scale_mut-z-scores");
        vp_reached!();
    }
}

// scale_mut bookkeeping on both axes with exact divisors
// @vp name=c03_scale_axes_2x2 prop=C03 tier=quick t=480 fns=MatrixStats::scale_mut size=2x2 dom=lattice(-8..8),std-in{1,2,4},f64
vp_proof! {
    #[cfg_attr(kani, kani::unwind(6))]
    fn c03_scale_axes_2x2() {
        let mut ai = [0i32; 4];
        let mut a = [0f64; 4];
        for t in 0..4 {
            let (i, f) = lat64(-8, 8);
            ai[t] = i;
            a[t] = f;
        }
        let (m0i, m0) = lat64(-4, 4);
        let (m1i, m1) = lat64(-4, 4);
        let e0 = anyu(0, 2);
        let e1 = anyu(0, 2);
        let (s0, s1) = ((1 << e0) as f64, (1 << e1) as f64);
        let axis: u8 = if kani::any() { 0 } else { 1 };
        let mut m = DenseMatrix::from_array(2, 2, &a);
        m.scale_mut(&[m0, m1], &[s0, s1], axis);
        for r in 0..2 {
            for c in 0..2 {
                let i = if axis == 0 { c } else { r };
                let (mu, sd) = if i == 0 { (m0i, s0) } else { (m1i, s1) };
                vp_assert!(m.get(r, c) * sd == (ai[r * 2 + c] - mu) as f64, "C03:scale_mut");
            }
        }
        vp_reached!();
    }
}

// ---------------------------------------------------------------------------------------------
// softmax: every argument handed to exp is <= 0 and one of them is exactly 0 (=> normaliser in [1, n],
// finite probability vector); outputs are exp(arg)/z in place.  Natively: the end-to-end statement.
// ---------------------------------------------------------------------------------------------
macro_rules! softmax {
    ($name:ident, $r:expr, $c:expr, $scaled:expr) => {
        #[cfg_attr(kani, kani::proof)]
        #[cfg_attr(kani, kani::unwind(7))]
        #[cfg_attr(kani, kani::stub(f64::exp, crate::common::rec_exp_pow2_64))]
        pub fn $name() {
            const N: usize = $r * $c;
            let mut a: [f64; N] = kani::any();
            if $scaled {
                // k * 2^e, k in -4..4, e in 0..=1000: all sign patterns, ties, and magnitudes up to 4e301
                let e: u16 = kani::any();
                kani::assume(e <= 1000);
                let scale = f64::from_bits(((1023 + e as u64) << 52));
                for t in 0..N {
                    a[t] = lat64(-4, 4).1 * scale;
                }
            } else {
                for t in 0..N {
                    kani::assume(a[t].is_finite() && a[t].abs() <= 1e300);
                }
            }
            let mut m = DenseMatrix::from_array($r, $c, &a);
            m.softmax_mut();
            if cfg!(vp_playback) {
                let mut s = 0f64;
                for r in 0..$r {
                    for c in 0..$c {
                        let p = m.get(r, c);
                        vp_assert!(p >= 0.0 && p <= 1.0, "C03:softmax-probability-vector");
                        s += p;
                    }
                }
                vp_assert!((s - 1.0).abs() <= 1e-9, "C03:softmax-probability-vector");
            } else {
                vp_assert!(nlog64() == N, "C03:softmax-exp-calls");
                let mut mx = a[0];
                for t in 0..N {
                    if a[t] > mx {
                        mx = a[t];
                    }
                }
                let mut has_zero = false;
                for t in 0..N {
                    let e = getlog64(t);
                    if e == 0.0 {
                        has_zero = true;
                    }
                }
                // the two ways in which a wrong shift becomes observable: every term underflows (0/0), or a term overflows (inf/inf)
                let mut emax = getlog64(0);
                for t in 0..N {
                    if getlog64(t) > emax {
                        emax = getlog64(t);
                    }
                }
                vp_assert!(emax >= -700.0, "C03:softmax-all-terms-underflow");
                vp_assert!(emax <= 700.0, "C03:softmax-term-overflows");
                vp_assert!(has_zero, "C03:softmax-exp-argument-max-is-zero");
                for t in 0..N {
                    vp_assert!(getlog64(t) <= 0.0, "C03:softmax-exp-argument-nonpositive");
                }
                // row-major evaluation order: call t belongs to cell t, its argument is x - max; the surrogate
                // result of call t is 2^t, so the normaliser is 2^N - 1 and cell t must hold 2^t / (2^N - 1)
                let z = ((1u64 << N) - 1) as f64;
                for r in 0..$r {
                    for c in 0..$c {
                        let t = r * $c + c;
                        vp_assert!(getlog64(t) == a[t] - mx, "C03:softmax-shift-by-maximum");
                        vp_assert!(same64(m.get(r, c), (1u64 << t) as f64 / z), "C03:softmax-normalised-in-place");
                    }
                }
            }
            vp_reached!();
        }
    };
}
// @vp name=c03_softmax_1x2 prop=C03 tier=quick t=480 fns=DenseMatrix::softmax_mut size=1x2 dom=lattice(-4..4)*2^e,e<=1000,f64 stubs=rec_exp_pow2_64
softmax!(c03_softmax_1x2, 1, 2, true);
// @vp name=c03_softmax_1x3 prop=C03 tier=quick t=480 fns=DenseMatrix::softmax_mut size=1x3 dom=lattice(-4..4)*2^e,e<=1000,f64 stubs=rec_exp_pow2_64
softmax!(c03_softmax_1x3, 1, 3, true);
// @vp name=c03_softmax_2x2 prop=C03 tier=quick t=480 fns=DenseMatrix::softmax_mut size=2x2 dom=lattice(-4..4)*2^e,e<=1000,f64 stubs=rec_exp_pow2_64
softmax!(c03_softmax_2x2, 2, 2, true);
// @vp name=c03_softmax_1x2_anyfinite prop=C03 tier=thorough t=3600 fns=DenseMatrix::softmax_mut size=1x2 dom=any-finite-f64,|x|<=1e300 stubs=rec_exp_pow2_64
softmax!(c03_softmax_1x2_anyfinite, 1, 2, false);

// ---------------------------------------------------------------------------------------------
// shape contracts: every listed operation on incompatible operands panics
// ---------------------------------------------------------------------------------------------
fn m(r: usize, c: usize) -> DenseMatrix<f64> {
    DenseMatrix::fill(r, c, 1.0)
}

// one harness per operand-shape pair (shapes concrete, the operation symbolic): every way of differing - both dimensions,
// columns only, rows only, same size but other shape - and both operand orders
macro_rules! shape_binary {
    ($name:ident, $r1:expr, $c1:expr, $r2:expr, $c2:expr) => {
        #[cfg_attr(kani, kani::proof)]
        #[cfg_attr(kani, kani::unwind(9))]
        pub fn $name() {
            let op = anyu(0, 7);
            let a = m($r1, $c1);
            let b = m($r2, $c2);
            let mut am = m($r1, $c1);
            vp_reached!();
            match op {
                0 => {
                    let _ = a.add(&b);
                }
                1 => {
                    let _ = a.sub(&b);
                }
                2 => {
                    let _ = a.mul(&b);
                }
                3 => {
                    let _ = a.div(&b);
                }
                4 => {
                    am.add_mut(&b);
                }
                5 => {
                    am.sub_mut(&b);
                }
                6 => {
                    am.mul_mut(&b);
                }
                _ => {
                    am.div_mut(&b);
                }
            }
            vp_fail!("C03:binary-op-incompatible-shape-not-rejected");
        }
    };
}
// @vp name=c03_shape_binary_2x3_3x2 prop=C03 tier=quick t=300 fns=DenseMatrix::add,sub,mul,div,add_mut,sub_mut,mul_mut,div_mut size=2x3-op-3x2 dom=op-symbolic expect=panic
shape_binary!(c03_shape_binary_2x3_3x2, 2, 3, 3, 2);
// @vp name=c03_shape_binary_2x3_2x2 prop=C03 tier=quick t=300 fns=DenseMatrix::add,sub,mul,div,add_mut,sub_mut,mul_mut,div_mut size=2x3-op-2x2 dom=op-symbolic expect=panic
shape_binary!(c03_shape_binary_2x3_2x2, 2, 3, 2, 2);
// @vp name=c03_shape_binary_2x2_2x3 prop=C03 tier=quick t=300 fns=DenseMatrix::add,sub,mul,div,add_mut,sub_mut,mul_mut,div_mut size=2x2-op-2x3 dom=op-symbolic expect=panic
shape_binary!(c03_shape_binary_2x2_2x3, 2, 2, 2, 3);
// @vp name=c03_shape_binary_1x3_2x3 prop=C03 tier=quick t=300 fns=DenseMatrix::add,sub,mul,div,add_mut,sub_mut,mul_mut,div_mut size=1x3-op-2x3 dom=op-symbolic expect=panic
shape_binary!(c03_shape_binary_1x3_2x3, 1, 3, 2, 3);
// @vp name=c03_shape_binary_2x3_1x3 prop=C03 tier=quick t=300 fns=DenseMatrix::add,sub,mul,div,add_mut,sub_mut,mul_mut,div_mut size=2x3-op-1x3 dom=op-symbolic expect=panic
shape_binary!(c03_shape_binary_2x3_1x3, 2, 3, 1, 3);
// @vp name=c03_shape_binary_2x3_1x6 prop=C03 tier=quick t=300 fns=DenseMatrix::add,sub,mul,div,add_mut,sub_mut,mul_mut,div_mut size=2x3-op-1x6 dom=op-symbolic expect=panic
shape_binary!(c03_shape_binary_2x3_1x6, 2, 3, 1, 6);

// @vp name=c03_shape_products prop=C03 tier=quick t=480 fns=DenseMatrix::matmul,ab size=2x3*2x3-and-flag-variants dom=flags-symbolic expect=panic
#[cfg_attr(kani, kani::proof)]
#[cfg_attr(kani, kani::unwind(9))]
pub fn c03_shape_products() {
    let which = anyu(0, 4);
    let a = m(2, 3);
    vp_reached!();
    match which {
        0 => {
            let _ = a.matmul(&m(2, 3));
        }
        1 => {
            let _ = a.ab(false, &m(2, 3), false);
        }
        2 => {
            // A^T (3x2) * B needs B with 2 rows
            let _ = a.ab(true, &m(3, 2), false);
        }
        3 => {
            // A (2x3) * B^T needs B with 3 columns
            let _ = a.ab(false, &m(3, 2), true);
        }
        _ => {
            // A^T (3x2) * B^T needs B with 2 columns
            let _ = a.ab(true, &m(2, 3), true);
        }
    }
    vp_fail!("C03:product-incompatible-shape-not-rejected");
}

// @vp name=c03_shape_dot prop=C03 tier=quick t=480 fns=DenseMatrix::dot,Vec::dot size=1x3.1x2,2x3.2x3,2x3.1x6,1x6.2x3,2x3.6x1,vec3.vec2 dom=pair-symbolic expect=panic
#[cfg_attr(kani, kani::proof)]
#[cfg_attr(kani, kani::unwind(9))]
pub fn c03_shape_dot() {
    let which = anyu(0, 5);
    vp_reached!();
    match which {
        0 => {
            let _ = m(1, 3).dot(&m(1, 2));
        }
        1 => {
            let _ = m(2, 3).dot(&m(2, 3));
        }
        2 => {
            let _ = m(2, 3).dot(&m(1, 6));
        }
        3 => {
            let _ = m(1, 6).dot(&m(2, 3));
        }
        4 => {
            let _ = m(2, 3).dot(&m(6, 1));
        }
        _ => {
            let _ = BaseVector::dot(&vec![1.0f64; 3], &vec![1.0f64; 2]);
        }
    }
    vp_fail!("C03:dot-incompatible-shape-not-rejected");
}

// @vp name=c03_shape_stack_reshape_copy prop=C03 tier=quick t=480 fns=DenseMatrix::h_stack,v_stack,reshape,copy_from,Vec::copy_from,Vec::add_mut,Vec::sub_mut,Vec::mul_mut,Vec::div_mut size=2x3-vs-3x2-etc dom=op-symbolic expect=panic
#[cfg_attr(kani, kani::proof)]
#[cfg_attr(kani, kani::unwind(9))]
#[cfg_attr(kani, kani::stub(std::fmt::format, crate::common::no_format))]
pub fn c03_shape_stack_reshape_copy() {
    let which = anyu(0, 10);
    let a = m(2, 3);
    let mut am = a.clone();
    let mut v3 = vec![1.0f64; 3];
    let v2 = vec![1.0f64; 2];
    vp_reached!();
    match which {
        0 => {
            let _ = if kani::any() { a.h_stack(&m(3, 3)) } else { a.h_stack(&m(1, 3)) };
        }
        1 => {
            let _ = if kani::any() { a.v_stack(&m(2, 2)) } else { a.v_stack(&m(2, 4)) };
        }
        2 => {
            let _ = a.reshape(2, 2);
        }
        3 => {
            let _ = a.reshape(4, 2);
        }
        4 => {
            am.copy_from(&m(3, 2));
        }
        5 => {
            if kani::any() {
                am.copy_from(&m(2, 2));
            } else {
                am.copy_from(&m(2, 4));
            }
        }
        6 => {
            BaseVector::copy_from(&mut v3, &v2);
        }
        7 => {
            BaseVector::add_mut(&mut v3, &v2);
        }
        8 => {
            BaseVector::sub_mut(&mut v3, &v2);
        }
        9 => {
            BaseVector::mul_mut(&mut v3, &v2);
        }
        _ => {
            BaseVector::div_mut(&mut v3, &v2);
        }
    }
    vp_fail!("C03:stack-reshape-copy-incompatible-shape-not-rejected");
}
