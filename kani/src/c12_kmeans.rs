//! C12 — k-means: soundness and exactness of the BBD-tree pruning predicate; prediction assigns the nearest centroid.
//! KMeans::fit and the whole filtering pass are outside the claim (DESIGN 6/C12).
use crate::common::*;
use smartcore::verif_hooks::{verif_bbd_prune, verif_kmeans_from_centroids};

// box = center +- radius (integer lattice, scaled by 2 so that half-integer centres/radii are included),
// best/test centroids on the lattice, x any lattice point of the box
macro_rules! prune {
    ($name:ident, $d:expr, $unw:expr) => {
        prune!($name, $d, $unw, 6, 4, 10);
    };
    ($name:ident, $d:expr, $unw:expr, $cm:expr, $rm:expr, $km:expr) => {
        vp_proof! {
            #[cfg_attr(kani, kani::unwind($unw))]
            fn $name() {
                const D: usize = $d;
                let mut ci = [0i32; D];
                let mut ri = [0i32; D];
                let mut bi = [0i32; D];
                let mut ti = [0i32; D];
                let mut xi = [0i32; D];
                let mut c = vec![0f64; D];
                let mut r = vec![0f64; D];
                let mut b = vec![0f64; D];
                let mut t = vec![0f64; D];
                for k in 0..D {
                    ci[k] = lat(-$cm, $cm);
                    ri[k] = lat(0, $rm);
                    bi[k] = lat(-$km, $km);
                    ti[k] = lat(-$km, $km);
                    xi[k] = lat(-$km, $km);
                    kani::assume(xi[k] >= ci[k] - ri[k] && xi[k] <= ci[k] + ri[k]);
                    // halves: everything divided by 2
                    c[k] = ci[k] as f64 / 2.0;
                    r[k] = ri[k] as f64 / 2.0;
                    b[k] = bi[k] as f64 / 2.0;
                    t[k] = ti[k] as f64 / 2.0;
                }
                let cents = vec![b.clone(), t.clone()];
                let pr = verif_bbd_prune(&c[..], &r[..], &cents[..], 0, 1);
                let mut db = 0i32;
                let mut dt = 0i32;
                for k in 0..D {
                    db += (xi[k] - bi[k]) * (xi[k] - bi[k]);
                    dt += (xi[k] - ti[k]) * (xi[k] - ti[k]);
                }
                // soundness: a pruned candidate is never strictly closer than the best one, anywhere in the box
                if pr {
                    vp_assert!(db <= dt, "C12:prune-sound-no-box-point-is-closer-to-pruned-centroid");
                }
                // exactness: if not pruned, the extreme corner in direction (test - best) is strictly closer to test
                let mut cb = 0i32;
                let mut ct = 0i32;
                for k in 0..D {
                    let corner = if ti[k] - bi[k] > 0 { ci[k] + ri[k] } else { ci[k] - ri[k] };
                    cb += (corner - bi[k]) * (corner - bi[k]);
                    ct += (corner - ti[k]) * (corner - ti[k]);
                }
                if !pr {
                    vp_assert!(ct < cb, "C12:prune-exact-unpruned-centroid-wins-somewhere");
                }
                vp_assert!(!verif_bbd_prune(&c[..], &r[..], &cents[..], 0, 0) && !verif_bbd_prune(&c[..], &r[..], &cents[..], 1, 1), "C12:prune-never-discards-the-best-itself");
                vp_reached!();
            }
        }
    };
}
// @vp name=c12_prune_d1 prop=C12 tier=quick t=480 fns=BBDTree::prune size=d=1,2-centroids dom=half-integer-lattice:center+-6/2,radius0..4/2,centroids+-10/2,f64
prune!(c12_prune_d1, 1, 5);
// @vp name=c12_prune_d2_small prop=C12 tier=quick t=480 fns=BBDTree::prune size=d=2,2-centroids dom=half-integer-lattice:center+-3/2,radius0..2/2,centroids+-5/2,f64
prune!(c12_prune_d2_small, 2, 5, 3, 2, 5);
// @vp name=c12_prune_d2 prop=C12 tier=thorough t=3000 fns=BBDTree::prune size=d=2,2-centroids dom=half-integer-lattice:center+-6/2,radius0..4/2,centroids+-10/2,f64
prune!(c12_prune_d2, 2, 5);
// @vp name=c12_prune_d3 prop=C12 tier=thorough t=3000 fns=BBDTree::prune size=d=3,2-centroids dom=half-integer-lattice:center+-6/2,radius0..4/2,centroids+-10/2,f64
prune!(c12_prune_d3, 3, 6);

macro_rules! kpredict {
    ($name:ident, $k:expr, $d:expr, $rows:expr, $unw:expr) => {
        vp_proof_traps! {
            #[cfg_attr(kani, kani::unwind($unw))]
            fn $name() {
                const K: usize = $k;
                const D: usize = $d;
                const R: usize = $rows;
                let mut ci = [[0i32; D]; K];
                let mut cents: Vec<Vec<f64>> = Vec::new();
                for j in 0..K {
                    let mut v = vec![0f64; D];
                    for t in 0..D {
                        let (a, b) = lat64(-4, 4);
                        ci[j][t] = a;
                        v[t] = b;
                    }
                    cents.push(v);
                }
                let mut xi = [[0i32; D]; R];
                let mut xa = [0f64; R * D];
                for i in 0..R {
                    for t in 0..D {
                        let (a, b) = lat64(-4, 4);
                        xi[i][t] = a;
                        xa[i * D + t] = b;
                    }
                }
                let m = verif_kmeans_from_centroids(cents);
                let x = DenseMatrix::from_array(R, D, &xa);
                let p = match m.predict(&x) {
                    Ok(p) => p,
                    Err(_) => vp_fail!("C12:kmeans-predict-failed"),
                };
                vp_assert!(p.len() == R, "C12:kmeans-predict-one-label-per-row");
                for i in 0..R {
                    let mut best = 0usize;
                    let mut bd = i32::MAX;
                    for j in 0..K {
                        let mut dd = 0i32;
                        for t in 0..D {
                            dd += (xi[i][t] - ci[j][t]) * (xi[i][t] - ci[j][t]);
                        }
                        if dd < bd {
                            bd = dd;
                            best = j;
                        }
                    }
                    vp_assert!(p[i] == best as f64, "C12:kmeans-predict-nearest-centroid-first-on-ties");
                }
                vp_reached!();
            }
        }
    };
}
// @vp name=c12_predict_k2_d1 prop=C12 tier=quick t=480 fns=KMeans::predict,Euclidian::squared_distance size=k=2,d=1,2-rows dom=lattice(-4..4),f64 stubs=traps,no_format
kpredict!(c12_predict_k2_d1, 2, 1, 2, 6);
// @vp name=c12_predict_k3_d1 prop=C12 tier=quick t=480 fns=KMeans::predict,Euclidian::squared_distance size=k=3,d=1,1-row dom=lattice(-4..4),f64 stubs=traps,no_format
kpredict!(c12_predict_k3_d1, 3, 1, 1, 6);
// @vp name=c12_predict_k2_d2 prop=C12 tier=quick t=480 fns=KMeans::predict,Euclidian::squared_distance size=k=2,d=2,1-row dom=lattice(-4..4),f64 stubs=traps,no_format
kpredict!(c12_predict_k2_d2, 2, 2, 1, 6);
// @vp name=c12_predict_k3_d2 prop=C12 tier=thorough t=2400 fns=KMeans::predict,Euclidian::squared_distance size=k=3,d=2,2-rows dom=lattice(-4..4),f64 stubs=traps,no_format
kpredict!(c12_predict_k3_d2, 3, 2, 2, 7);
