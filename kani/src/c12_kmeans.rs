//! C12 — k-means: soundness and exactness of the BBD-tree pruning predicate; prediction assigns the nearest centroid.
//! KMeans::fit and the whole filtering pass are outside the claim (DESIGN 6/C12).
use crate::common::*;
use smartcore::verif_hooks::{verif_bbd_clustering, verif_bbd_prune, verif_kmeans_from_centroids};

// box = center +- radius (integer lattice, scaled by 2 so that half-integer centres/radii are included),
// best/test centroids on the lattice, x any lattice point of the box
macro_rules! prune {
    ($name:ident, $d:expr, $unw:expr) => {
        prune!($name, $d, $unw, 6, 4, 10);
    };
    ($name:ident, $d:expr, $unw:expr, $cm:expr, $rm:expr, $km:expr) => {
        vp_proof! {
            #[cfg_attr(kani, kani::unwind($unw))]
            fn $name() {
                const D: usize = $d;
                let mut ci = [0i32; D];
                let mut ri = [0i32; D];
                let mut bi = [0i32; D];
                let mut ti = [0i32; D];
                let mut xi = [0i32; D];
                let mut c = vec![0f64; D];
                let mut r = vec![0f64; D];
                let mut b = vec![0f64; D];
                let mut t = vec![0f64; D];
                for k in 0..D {
                    ci[k] = lat(-$cm, $cm);
                    ri[k] = lat(0, $rm);
                    bi[k] = lat(-$km, $km);
                    ti[k] = lat(-$km, $km);
                    xi[k] = lat(-$km, $km);
                    kani::assume(xi[k] >= ci[k] - ri[k] && xi[k] <= ci[k] + ri[k]);
                    // halves: everything divided by 2
                    c[k] = ci[k] as f64 / 2.0;
                    r[k] = ri[k] as f64 / 2.0;
                    b[k] = bi[k] as f64 / 2.0;
                    t[k] = ti[k] as f64 / 2.0;
                }
                let cents = vec![b.clone(), t.clone()];
                let pr = verif_bbd_prune(&c[..], &r[..], &cents[..], 0, 1);
                let mut db = 0i32;
                let mut dt = 0i32;
                for k in 0..D {
                    db += (xi[k] - bi[k]) * (xi[k] - bi[k]);
                    dt += (xi[k] - ti[k]) * (xi[k] - ti[k]);
                }
                // soundness: a pruned candidate is never strictly closer than the best one, anywhere in the box
                if pr {
                    vp_assert!(db <= dt, "C12:prune-sound-no-box-point-is-closer-to-pruned-centroid");
                }
                // exactness: if not pruned, the extreme corner in direction (test - best) is strictly closer to test
                let mut cb = 0i32;
                let mut ct = 0i32;
                for k in 0..D {
                    let corner = if ti[k] - bi[k] > 0 { ci[k] + ri[k] } else { ci[k] - ri[k] };
                    cb += (corner - bi[k]) * (corner - bi[k]);
                    ct += (corner - ti[k]) * (corner - ti[k]);
                }
                if !pr {
                    vp_assert!(ct < cb, "C12:prune-exact-unpruned-centroid-wins-somewhere");
                }
                vp_assert!(!verif_bbd_prune(&c[..], &r[..], &cents[..], 0, 0) && !verif_bbd_prune(&c[..], &r[..], &cents[..], 1, 1), "C12:prune-never-discards-the-best-itself");
                vp_reached!();
            }
        }
    };
}
// @vp name=c12_prune_d1 prop=C12 tier=quick t=480 fns=BBDTree::prune size=d=1,2-centroids dom=half-integer-lattice:center+-6/2,radius0..4/2,centroids+-10/2,f64
prune!(c12_prune_d1, 1, 5);
// @vp name=c12_prune_d2_small prop=C12 tier=quick t=480 fns=BBDTree::prune size=d=2,2-centroids dom=half-integer-lattice:center+-3/2,radius0..2/2,centroids+-5/2,f64
prune!(c12_prune_d2_small, 2, 5, 3, 2, 5);
// @vp name=c12_prune_d2 prop=C12 tier=thorough t=3000 fns=BBDTree::prune size=d=2,2-centroids dom=half-integer-lattice:center+-6/2,radius0..4/2,centroids+-10/2,f64
prune!(c12_prune_d2, 2, 5);
// @vp name=c12_prune_d3 prop=C12 tier=thorough t=3000 fns=BBDTree::prune size=d=3,2-centroids dom=half-integer-lattice:center+-6/2,radius0..4/2,centroids+-10/2,f64
prune!(c12_prune_d3, 3, 6);

macro_rules! kpredict {
    ($name:ident, $k:expr, $d:expr, $rows:expr, $unw:expr) => {
        vp_proof_traps! {
            #[cfg_attr(kani, kani::unwind($unw))]
            fn $name() {
                const K: usize = $k;
                const D: usize = $d;
                const R: usize = $rows;
                let mut ci = [[0i32; D]; K];
                let mut cents: Vec<Vec<f64>> = Vec::new();
                for j in 0..K {
                    let mut v = vec![0f64; D];
                    for t in 0..D {
                        let (a, b) = lat64(-4, 4);
                        ci[j][t] = a;
                        v[t] = b;
                    }
                    cents.push(v);
                }
                let mut xi = [[0i32; D]; R];
                let mut xa = [0f64; R * D];
                for i in 0..R {
                    for t in 0..D {
                        let (a, b) = lat64(-4, 4);
                        xi[i][t] = a;
                        xa[i * D + t] = b;
                    }
                }
                let m = verif_kmeans_from_centroids(cents);
                let x = DenseMatrix::from_array(R, D, &xa);
                let p = match m.predict(&x) {
                    Ok(p) => p,
                    Err(_) => vp_fail!("C12:kmeans-predict-failed"),
                };
                vp_assert!(p.len() == R, "C12:kmeans-predict-one-label-per-row");
                for i in 0..R {
                    let mut best = 0usize;
                    let mut bd = i32::MAX;
                    for j in 0..K {
                        let mut dd = 0i32;
                        for t in 0..D {
                            dd += (xi[i][t] - ci[j][t]) * (xi[i][t] - ci[j][t]);
                        }
                        if dd < bd {
                            bd = dd;
                            best = j;
                        }
                    }
                    vp_assert!(p[i] == best as f64, "C12:kmeans-predict-nearest-centroid-first-on-ties");
                }
                vp_reached!();
            }
        }
    };
}
// @vp name=c12_predict_k2_d1 prop=C12 tier=quick t=480 fns=KMeans::predict,Euclidian::squared_distance size=k=2,d=1,2-rows dom=lattice(-4..4),f64 stubs=traps,no_format
kpredict!(c12_predict_k2_d1, 2, 1, 2, 6);
// @vp name=c12_predict_k3_d1 prop=C12 tier=quick t=480 fns=KMeans::predict,Euclidian::squared_distance size=k=3,d=1,1-row dom=lattice(-4..4),f64 stubs=traps,no_format
kpredict!(c12_predict_k3_d1, 3, 1, 1, 6);
// @vp name=c12_predict_k2_d2 prop=C12 tier=quick t=480 fns=KMeans::predict,Euclidian::squared_distance size=k=2,d=2,1-row dom=lattice(-4..4),f64 stubs=traps,no_format
kpredict!(c12_predict_k2_d2, 2, 2, 1, 6);
// @vp name=c12_predict_k3_d2 prop=C12 tier=thorough t=2400 fns=KMeans::predict,Euclidian::squared_distance size=k=3,d=2,2-rows dom=lattice(-4..4),f64 stubs=traps,no_format
kpredict!(c12_predict_k3_d2, 3, 2, 2, 7);

// ---------------------------------------------------------------------------------------------
// the tree-accelerated assignment pass (BBDTree::new + clustering) on a FIXED small data set, for EVERY set of k lattice
// centroids: each row is attached to one of its nearest centroids, and counts / sums / distortion equal those of that assignment.
// (Data are concrete so that the tree shape is concrete; the solver quantifies over the centroids, incl. coincident and far-away ones.)
// Best effort, thorough tier only: the candidate lists of the filtering recursion have symbolic length and n = 4, k = 2 did not finish in 15 min.
// ---------------------------------------------------------------------------------------------
macro_rules! bbd_assign {
    ($name:ident, $data:expr, $n:expr, $k:expr, $lo:expr, $hi:expr, $unw:expr) => {
        vp_proof! {
            #[cfg_attr(kani, kani::unwind($unw))]
            fn $name() {
                const N: usize = $n;
                const K: usize = $k;
                let xi: [i32; N] = $data;
                let mut xa = [0f64; N];
                for i in 0..N {
                    xa[i] = xi[i] as f64;
                }
                let x = DenseMatrix::from_array(N, 1, &xa);
                let mut ci = [0i32; K];
                let mut cents: Vec<Vec<f64>> = Vec::new();
                for j in 0..K {
                    let (a, b) = lat64($lo, $hi);
                    ci[j] = a;
                    cents.push(vec![b]);
                }
                let (dist, sums, counts, mem) = verif_bbd_clustering(&x, &cents[..]);
                vp_assert!(mem.len() == N && counts.len() == K && sums.len() == K, "C12:assignment-output-lengths");
                let mut want_counts = [0usize; K];
                let mut want_sums = [0i32; K];
                let mut want_dist = 0i32;
                for i in 0..N {
                    let m = mem[i];
                    vp_assert!(m < K, "C12:assignment-membership-in-range");
                    let dm = (xi[i] - ci[m]) * (xi[i] - ci[m]);
                    for j in 0..K {
                        vp_assert!(dm <= (xi[i] - ci[j]) * (xi[i] - ci[j]), "C12:assignment-attaches-every-row-to-a-nearest-centroid");
                    }
                    want_counts[m] += 1;
                    want_sums[m] += xi[i];
                    want_dist += dm;
                }
                let mut tot = 0usize;
                for j in 0..K {
                    vp_assert!(counts[j] == want_counts[j], "C12:assignment-counts-equal-exhaustive");
                    vp_assert!(sums[j].len() == 1 && sums[j][0] == want_sums[j] as f64, "C12:assignment-sums-equal-exhaustive");
                    tot += counts[j];
                }
                vp_assert!(tot == N, "C12:assignment-counts-sum-to-n");
                vp_assert!(dist == want_dist as f64, "C12:assignment-distortion-equals-exhaustive");
                vp_reached!();
            }
        }
    };
}
// @vp name=c12_bbd_assign_n4_k2 prop=C12 tier=thorough mem=25 t=1200 fns=BBDTree::new,build_node,clustering,filter,prune,get_node_cost size=data=[0,0,4,9],k=2,d=1 dom=centroids-lattice(-2..11),f64
bbd_assign!(c12_bbd_assign_n4_k2, [0, 0, 4, 9], 4, 2, -2, 11, 8);
