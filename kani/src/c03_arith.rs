//! C03 (part 2) — arithmetic, products and reductions of DenseMatrix / Vec on the integer lattice
//! (float arithmetic of the real code is exact there; the oracle is integer arithmetic in the harness).
use crate::common::*;
use smartcore::linalg::high_order::HighOrderOperations;
use smartcore::linalg::stats::{MatrixPreprocessing, MatrixStats};

fn latarr<const N: usize>(lo: i8, hi: i8) -> ([i32; N], [f64; N]) {
    let mut i = [0i32; N];
    let mut f = [0f64; N];
    for t in 0..N {
        let (a, b) = lat64(lo, hi);
        i[t] = a;
        f[t] = b;
    }
    (i, f)
}
fn latarr32<const N: usize>(lo: i8, hi: i8) -> ([i32; N], [f32; N]) {
    let mut i = [0i32; N];
    let mut f = [0f32; N];
    for t in 0..N {
        let (a, b) = lat32(lo, hi);
        i[t] = a;
        f[t] = b;
    }
    (i, f)
}
/// +-1, +-2, +-4 (exact divisors)
fn pow2() -> (i32, f64) {
    let e = anyu(0, 2);
    let neg: bool = kani::any();
    let v = (1i32 << e) * if neg { -1 } else { 1 };
    (v, v as f64)
}

/// element-wise and scalar arithmetic: copying variant == in-place variant == integer oracle
fn elementwise<const R: usize, const C: usize, const N: usize>() {
    let (ai, a) = latarr::<N>(-8, 8);
    let (bi, b) = latarr::<N>(-8, 8);
    let (si, s) = lat64(-8, 8);
    let (pi, p) = pow2();
    let ma = DenseMatrix::from_array(R, C, &a);
    let mb = DenseMatrix::from_array(R, C, &b);
    let add = ma.add(&mb);
    let sub = ma.sub(&mb);
    let mul = ma.mul(&mb);
    let mut add_m = ma.clone();
    add_m.add_mut(&mb);
    let mut sub_m = ma.clone();
    sub_m.sub_mut(&mb);
    let mut mul_m = ma.clone();
    mul_m.mul_mut(&mb);
    let adds = ma.add_scalar(s);
    let subs = ma.sub_scalar(s);
    let muls = ma.mul_scalar(s);
    let divs = ma.div_scalar(p);
    let mut adds_m = ma.clone();
    adds_m.add_scalar_mut(s);
    let mut subs_m = ma.clone();
    subs_m.sub_scalar_mut(s);
    let mut muls_m = ma.clone();
    muls_m.mul_scalar_mut(s);
    let mut divs_m = ma.clone();
    divs_m.div_scalar_mut(p);
    let neg = ma.negative();
    let abs = ma.abs();
    for r in 0..R {
        for c in 0..C {
            let k = r * C + c;
            vp_assert!(add.get(r, c) == (ai[k] + bi[k]) as f64 && add_m.get(r, c) == add.get(r, c), "C03:add");
            vp_assert!(sub.get(r, c) == (ai[k] - bi[k]) as f64 && sub_m.get(r, c) == sub.get(r, c), "C03:sub");
            vp_assert!(mul.get(r, c) == (ai[k] * bi[k]) as f64 && mul_m.get(r, c) == mul.get(r, c), "C03:mul");
            vp_assert!(adds.get(r, c) == (ai[k] + si) as f64 && adds_m.get(r, c) == adds.get(r, c), "C03:add_scalar");
            vp_assert!(subs.get(r, c) == (ai[k] - si) as f64 && subs_m.get(r, c) == subs.get(r, c), "C03:sub_scalar");
            vp_assert!(muls.get(r, c) == (ai[k] * si) as f64 && muls_m.get(r, c) == muls.get(r, c), "C03:mul_scalar");
            vp_assert!(divs.get(r, c) * p == a[k] && divs_m.get(r, c) == divs.get(r, c), "C03:div_scalar");
            vp_assert!(neg.get(r, c) == (-ai[k]) as f64, "C03:negative");
            vp_assert!(abs.get(r, c) == ai[k].abs() as f64, "C03:abs");
        }
    }
    let _ = pi;
    vp_reached!();
}

/// element-wise division and the *_element_mut family
fn div_elements<const R: usize, const C: usize, const N: usize>() {
    let (ai, a) = latarr::<N>(-8, 8);
    let mut bi = [0i32; N];
    let mut b = [0f64; N];
    for t in 0..N {
        let (x, y) = pow2();
        bi[t] = x;
        b[t] = y;
    }
    let ma = DenseMatrix::from_array(R, C, &a);
    let mb = DenseMatrix::from_array(R, C, &b);
    let div = ma.div(&mb);
    let mut div_m = ma.clone();
    div_m.div_mut(&mb);
    let (xi, x) = lat64(-4, 4);
    let (_, p) = pow2();
    for r in 0..R {
        for c in 0..C {
            let k = r * C + c;
            vp_assert!(div.get(r, c) * b[k] == a[k] && div_m.get(r, c) == div.get(r, c), "C03:div");
            let mut e = ma.clone();
            e.add_element_mut(r, c, x);
            vp_assert!(e.get(r, c) == (ai[k] + xi) as f64, "C03:add_element_mut");
            e.sub_element_mut(r, c, x);
            vp_assert!(e.get(r, c) == ai[k] as f64, "C03:sub_element_mut");
            e.mul_element_mut(r, c, x);
            vp_assert!(e.get(r, c) == (ai[k] * xi) as f64, "C03:mul_element_mut");
            e.div_element_mut(r, c, p);
            vp_assert!(e.get(r, c) * p == (ai[k] * xi) as f64, "C03:div_element_mut");
            // every other cell untouched
            for r2 in 0..R {
                for c2 in 0..C {
                    if r2 != r || c2 != c {
                        vp_assert!(e.get(r2, c2) == a[r2 * C + c2], "C03:element_mut-others-untouched");
                    }
                }
            }
        }
    }
    let _ = bi;
    vp_reached!();
}

macro_rules! h {
    ($name:ident, $unw:expr, $body:expr) => {
        #[cfg_attr(kani, kani::proof)]
        #[cfg_attr(kani, kani::unwind($unw))]
        pub fn $name() {
            $body;
        }
    };
}

// @vp name=c03_elementwise_2x2 prop=C03 tier=quick t=480 fns=DenseMatrix::add,sub,mul,add_mut,sub_mut,mul_mut,add_scalar,sub_scalar,mul_scalar,div_scalar,*_scalar_mut,negative,abs size=2x2 dom=lattice(-8..8),f64
h!(c03_elementwise_2x2, 7, elementwise::<2, 2, 4>());
// @vp name=c03_elementwise_2x3 prop=C03 tier=thorough t=1800 fns=DenseMatrix::add,sub,mul,add_mut,sub_mut,mul_mut,add_scalar,sub_scalar,mul_scalar,div_scalar,*_scalar_mut,negative,abs size=2x3 dom=lattice(-8..8),f64
h!(c03_elementwise_2x3, 9, elementwise::<2, 3, 6>());
// @vp name=c03_elementwise_3x1 prop=C03 tier=quick t=480 fns=DenseMatrix::add,sub,mul,add_mut,sub_mut,mul_mut,add_scalar,sub_scalar,mul_scalar,div_scalar,*_scalar_mut,negative,abs size=3x1 dom=lattice(-8..8),f64
h!(c03_elementwise_3x1, 6, elementwise::<3, 1, 3>());
// @vp name=c03_elementwise_3x2 prop=C03 tier=thorough t=1800 fns=DenseMatrix::add,sub,mul,add_mut,sub_mut,mul_mut,add_scalar,sub_scalar,mul_scalar,div_scalar,*_scalar_mut,negative,abs size=3x2 dom=lattice(-8..8),f64
h!(c03_elementwise_3x2, 9, elementwise::<3, 2, 6>());
// @vp name=c03_div_elements_2x2 prop=C03 tier=quick t=480 fns=DenseMatrix::div,div_mut,add_element_mut,sub_element_mut,mul_element_mut,div_element_mut size=2x2 dom=lattice(-8..8),divisors+-{1,2,4},f64
h!(c03_div_elements_2x2, 7, div_elements::<2, 2, 4>());
// @vp name=c03_div_elements_2x3 prop=C03 tier=thorough t=1800 fns=DenseMatrix::div,div_mut,add_element_mut,sub_element_mut,mul_element_mut,div_element_mut size=2x3 dom=lattice(-8..8),divisors+-{1,2,4},f64
h!(c03_div_elements_2x3, 9, div_elements::<2, 3, 6>());

/// matmul: (R x K) * (K x C) against the integer product
fn matmul<const R: usize, const K: usize, const C: usize, const NA: usize, const NB: usize>(lo: i8, hi: i8) {
    let (ai, a) = latarr::<NA>(lo, hi);
    let (bi, b) = latarr::<NB>(lo, hi);
    let ma = DenseMatrix::from_array(R, K, &a);
    let mb = DenseMatrix::from_array(K, C, &b);
    let p = ma.matmul(&mb);
    vp_assert!(p.shape() == (R, C), "C03:matmul-shape");
    for r in 0..R {
        for c in 0..C {
            let mut s = 0i32;
            for k in 0..K {
                s += ai[r * K + k] * bi[k * C + c];
            }
            vp_assert!(p.get(r, c) == s as f64, "C03:matmul");
        }
    }
    vp_reached!();
}
// @vp name=c03_matmul_2x3_3x2 prop=C03 tier=quick t=480 fns=DenseMatrix::matmul size=2x3*3x2 dom=lattice(-4..4),f64
h!(c03_matmul_2x3_3x2, 9, matmul::<2, 3, 2, 6, 6>(-4, 4));
// @vp name=c03_matmul_1x3_3x1 prop=C03 tier=quick t=300 fns=DenseMatrix::matmul size=1x3*3x1 dom=lattice(-4..4),f64
h!(c03_matmul_1x3_3x1, 6, matmul::<1, 3, 1, 3, 3>(-4, 4));
// @vp name=c03_matmul_3x1_1x3 prop=C03 tier=quick t=300 fns=DenseMatrix::matmul size=3x1*1x3 dom=lattice(-4..4),f64
h!(c03_matmul_3x1_1x3, 6, matmul::<3, 1, 3, 3, 3>(-4, 4));
// @vp name=c03_matmul_3x2_2x3 prop=C03 tier=thorough t=2400 fns=DenseMatrix::matmul size=3x2*2x3 dom=lattice(-4..4),f64
h!(c03_matmul_3x2_2x3, 9, matmul::<3, 2, 3, 6, 6>(-4, 4));
// @vp name=c03_matmul_2x2_2x2 prop=C03 tier=thorough t=1800 fns=DenseMatrix::matmul size=2x2*2x2 dom=lattice(-8..8),f64
h!(c03_matmul_2x2_2x2, 7, matmul::<2, 2, 2, 4, 4>(-8, 8));

/// ab(ta, ., tb) on non-square operands; operand shapes chosen so that the product is defined
fn ab_flags<const TA: bool, const TB: bool>() {
    // logical product is (2x3) * (3x2) -> 2x2;  A is stored 3x2 if TA, B is stored 2x3 if TB
    let (ai, a) = latarr::<6>(-2, 2);
    let (bi, b) = latarr::<6>(-2, 2);
    let ma = if TA { DenseMatrix::from_array(3, 2, &a) } else { DenseMatrix::from_array(2, 3, &a) };
    let mb = if TB { DenseMatrix::from_array(2, 3, &b) } else { DenseMatrix::from_array(3, 2, &b) };
    let p = ma.ab(TA, &mb, TB);
    vp_assert!(p.shape() == (2, 2), "C03:ab-shape");
    for r in 0..2 {
        for c in 0..2 {
            let mut s = 0i32;
            for k in 0..3 {
                let av = if TA { ai[k * 2 + r] } else { ai[r * 3 + k] };
                let bv = if TB { bi[c * 3 + k] } else { bi[k * 2 + c] };
                s += av * bv;
            }
            vp_assert!(p.get(r, c) == s as f64, "C03:ab");
        }
    }
    vp_reached!();
}
// @vp name=c03_ab_nn prop=C03 tier=quick t=480 fns=DenseMatrix::ab size=2x3*3x2,flags=(f,f) dom=lattice(-2..2),f64
h!(c03_ab_nn, 9, ab_flags::<false, false>());
// @vp name=c03_ab_tn prop=C03 tier=quick t=480 fns=DenseMatrix::ab size=(3x2)^T*3x2,flags=(t,f) dom=lattice(-2..2),f64
h!(c03_ab_tn, 9, ab_flags::<true, false>());
// @vp name=c03_ab_nt prop=C03 tier=quick t=480 fns=DenseMatrix::ab size=2x3*(2x3)^T,flags=(f,t) dom=lattice(-2..2),f64
h!(c03_ab_nt, 9, ab_flags::<false, true>());
// @vp name=c03_ab_tt prop=C03 tier=quick t=480 fns=DenseMatrix::ab size=(3x2)^T*(2x3)^T,flags=(t,t) dom=lattice(-2..2),f64
h!(c03_ab_tt, 9, ab_flags::<true, true>());

/// dot for row/column vectors and Vec
// @vp name=c03_dot_n3 prop=C03 tier=quick t=300 fns=DenseMatrix::dot,Vec::dot size=n=3 dom=lattice(-8..8),f64
#[cfg_attr(kani, kani::proof)]
#[cfg_attr(kani, kani::unwind(6))]
pub fn c03_dot_n3() {
    let (ai, a) = latarr::<3>(-8, 8);
    let (bi, b) = latarr::<3>(-8, 8);
    let want = (ai[0] * bi[0] + ai[1] * bi[1] + ai[2] * bi[2]) as f64;
    let ra = DenseMatrix::row_vector_from_array(&a);
    let rb = DenseMatrix::row_vector_from_array(&b);
    let ca = DenseMatrix::column_vector_from_array(&a);
    let cb = DenseMatrix::column_vector_from_array(&b);
    vp_assert!(ra.dot(&rb) == want, "C03:dot-row-row");
    vp_assert!(ca.dot(&cb) == want, "C03:dot-col-col");
    vp_assert!(ra.dot(&cb) == want, "C03:dot-row-col");
    vp_assert!(BaseVector::dot(&a.to_vec(), &b.to_vec()) == want, "C03:vec-dot");
    vp_reached!();
}

/// reductions
fn reductions<const R: usize, const C: usize, const N: usize>() {
    let (ai, a) = latarr::<N>(-4, 4);
    let (bi, b) = latarr::<N>(-4, 4);
    let m = DenseMatrix::from_array(R, C, &a);
    let mb = DenseMatrix::from_array(R, C, &b);
    let mut s = 0i32;
    let mut mx = ai[0];
    let mut mn = ai[0];
    let mut mxa = 0i32;
    let mut mna = ai[0].abs();
    let mut l1 = 0i32;
    let mut md = 0i32;
    for k in 0..N {
        s += ai[k];
        l1 += ai[k].abs();
        if ai[k] > mx {
            mx = ai[k]
        }
        if ai[k] < mn {
            mn = ai[k]
        }
        if ai[k].abs() > mxa {
            mxa = ai[k].abs()
        }
        if ai[k].abs() < mna {
            mna = ai[k].abs()
        }
        if (ai[k] - bi[k]).abs() > md {
            md = (ai[k] - bi[k]).abs()
        }
    }
    vp_assert!(m.sum() == s as f64, "C03:sum");
    vp_assert!(m.max() == mx as f64, "C03:max");
    vp_assert!(m.min() == mn as f64, "C03:min");
    vp_assert!(m.norm(f64::INFINITY) == mxa as f64, "C03:norm-inf");
    vp_assert!(m.norm(f64::NEG_INFINITY) == mna as f64, "C03:norm-neg-inf");
    vp_assert!(m.max_diff(&mb) == md as f64, "C03:max_diff");
    let _ = l1;
    vp_reached!();
}

/// means along both axes, argmax
fn means_argmax<const R: usize, const C: usize, const N: usize>() {
    let (ai, a) = latarr::<N>(-4, 4);
    let m = DenseMatrix::from_array(R, C, &a);
    let cm = m.column_mean();
    let m0 = m.mean(0);
    let m1 = m.mean(1);
    vp_assert!(cm.len() == C && m0.len() == C && m1.len() == R, "C03:mean-length");
    for c in 0..C {
        let mut cs = 0i32;
        for r in 0..R {
            cs += ai[r * C + c];
        }
        vp_assert!(cm[c] == cs as f64 / R as f64, "C03:column_mean");
        vp_assert!(m0[c] == cs as f64 / R as f64, "C03:mean-axis0");
    }
    let am = m.argmax();
    vp_assert!(am.len() == R, "C03:argmax-length");
    for r in 0..R {
        let mut rs = 0i32;
        let mut best = 0usize;
        for c in 0..C {
            rs += ai[r * C + c];
            if ai[r * C + c] > ai[r * C + best] {
                best = c;
            }
        }
        vp_assert!(m1[r] == rs as f64 / C as f64, "C03:mean-axis1");
        vp_assert!(am[r] == best, "C03:argmax-first-maximum");
    }
    vp_reached!();
}
// @vp name=c03_reductions_2x3 prop=C03 tier=quick t=480 fns=DenseMatrix::sum,max,min,norm(+-inf),max_diff size=2x3 dom=lattice(-4..4),f64
h!(c03_reductions_2x3, 9, reductions::<2, 3, 6>());
// @vp name=c03_reductions_3x1 prop=C03 tier=thorough t=1200 fns=DenseMatrix::sum,max,min,norm(+-inf),max_diff size=3x1 dom=lattice(-4..4),f64
h!(c03_reductions_3x1, 6, reductions::<3, 1, 3>());
// @vp name=c03_reductions_3x2 prop=C03 tier=thorough t=1800 fns=DenseMatrix::sum,max,min,norm(+-inf),max_diff size=3x2 dom=lattice(-4..4),f64
h!(c03_reductions_3x2, 9, reductions::<3, 2, 6>());
// @vp name=c03_means_argmax_2x3 prop=C03 tier=quick t=480 fns=DenseMatrix::column_mean,MatrixStats::mean,DenseMatrix::argmax size=2x3 dom=lattice(-4..4),f64
h!(c03_means_argmax_2x3, 9, means_argmax::<2, 3, 6>());
// @vp name=c03_means_argmax_3x2 prop=C03 tier=quick t=480 fns=DenseMatrix::column_mean,MatrixStats::mean,DenseMatrix::argmax size=3x2 dom=lattice(-4..4),f64
h!(c03_means_argmax_3x2, 9, means_argmax::<3, 2, 6>());
// @vp name=c03_means_argmax_1x3 prop=C03 tier=thorough t=1200 fns=DenseMatrix::column_mean,MatrixStats::mean,DenseMatrix::argmax size=1x3 dom=lattice(-4..4),f64
h!(c03_means_argmax_1x3, 6, means_argmax::<1, 3, 3>());

/// Vec reductions and arithmetic
// @vp name=c03_vec_arith_n3 prop=C03 tier=quick t=480 fns=Vec::add,sub,mul,add_mut,sub_mut,mul_mut,*_scalar,sum,mean,norm(+-inf),unique size=n=3 dom=lattice(-8..8),f64
#[cfg_attr(kani, kani::proof)]
#[cfg_attr(kani, kani::unwind(7))]
pub fn c03_vec_arith_n3() {
    let (ai, a) = latarr::<3>(-8, 8);
    let (bi, b) = latarr::<3>(-8, 8);
    let (si, s) = lat64(-8, 8);
    let va = a.to_vec();
    let vb = b.to_vec();
    let add = BaseVector::add(&va, &vb);
    let sub = BaseVector::sub(&va, &vb);
    let mul = BaseVector::mul(&va, &vb);
    let mut add_m = va.clone();
    BaseVector::add_mut(&mut add_m, &vb);
    let mut sub_m = va.clone();
    BaseVector::sub_mut(&mut sub_m, &vb);
    let mut mul_m = va.clone();
    BaseVector::mul_mut(&mut mul_m, &vb);
    let adds = BaseVector::add_scalar(&va, s);
    let subs = BaseVector::sub_scalar(&va, s);
    let muls = BaseVector::mul_scalar(&va, s);
    for k in 0..3 {
        vp_assert!(add[k] == (ai[k] + bi[k]) as f64 && add_m[k] == add[k], "C03:vec-add");
        vp_assert!(sub[k] == (ai[k] - bi[k]) as f64 && sub_m[k] == sub[k], "C03:vec-sub");
        vp_assert!(mul[k] == (ai[k] * bi[k]) as f64 && mul_m[k] == mul[k], "C03:vec-mul");
        vp_assert!(adds[k] == (ai[k] + si) as f64, "C03:vec-add_scalar");
        vp_assert!(subs[k] == (ai[k] - si) as f64, "C03:vec-sub_scalar");
        vp_assert!(muls[k] == (ai[k] * si) as f64, "C03:vec-mul_scalar");
    }
    let sum = ai[0] + ai[1] + ai[2];
    vp_assert!(BaseVector::sum(&va) == sum as f64, "C03:vec-sum");
    vp_assert!(BaseVector::mean(&va) == sum as f64 / 3.0, "C03:vec-mean");
    let mxa = ai[0].abs().max(ai[1].abs()).max(ai[2].abs());
    let mna = ai[0].abs().min(ai[1].abs()).min(ai[2].abs());
    vp_assert!(BaseVector::norm(&va, f64::INFINITY) == mxa as f64, "C03:vec-norm-inf");
    vp_assert!(BaseVector::norm(&va, f64::NEG_INFINITY) == mna as f64, "C03:vec-norm-neg-inf");
    vp_reached!();
}

/// unique: sorted ascending, no duplicates, same set of values
// @vp name=c03_unique_2x2 prop=C03 tier=quick t=480 fns=DenseMatrix::unique,Vec::unique size=2x2/n=4 dom=lattice(-2..2),f64
#[cfg_attr(kani, kani::proof)]
#[cfg_attr(kani, kani::unwind(8))]
pub fn c03_unique_2x2() {
    let (ai, a) = latarr::<4>(-2, 2);
    let m = DenseMatrix::from_array(2, 2, &a);
    let u = m.unique();
    let uv = BaseVector::unique(&a.to_vec());
    vp_assert!(u.len() == uv.len(), "C03:unique-vec-matrix-agree");
    // present[v+2]
    let mut present = [false; 5];
    for k in 0..4 {
        present[(ai[k] + 2) as usize] = true;
    }
    let mut cnt = 0;
    for v in 0..5 {
        if present[v] {
            cnt += 1;
        }
    }
    vp_assert!(u.len() == cnt, "C03:unique-count");
    let mut idx = 0;
    for v in 0..5 {
        if present[v] {
            vp_assert!(u[idx] == (v as i32 - 2) as f64 && uv[idx] == u[idx], "C03:unique-sorted-values");
            idx += 1;
        }
    }
    vp_reached!();
}

/// norm2 (f32 so that sqrt is cheap): squared norm equals the integer sum of squares, exact on perfect squares
// @vp name=c03_norm2_2x2 prop=C03 tier=quick t=480 fns=DenseMatrix::norm2,Vec::norm2 size=2x2/n=4 dom=lattice(-4..4),f32
#[cfg_attr(kani, kani::proof)]
#[cfg_attr(kani, kani::unwind(11))]
pub fn c03_norm2_2x2() {
    let (ai, a) = latarr32::<4>(-4, 4);
    let m = DenseMatrix::from_array(2, 2, &a);
    let n = m.norm2();
    let nv = BaseVector::norm2(&a.to_vec());
    let s = ai[0] * ai[0] + ai[1] * ai[1] + ai[2] * ai[2] + ai[3] * ai[3];
    vp_assert!(n >= 0.0 && (n * n - s as f32).abs() <= 4.0 * f32::EPSILON * s as f32, "C03:norm2");
    vp_assert!(same32(n, nv), "C03:vec-norm2-agrees");
    for ps in 0..=8 {
        if ps * ps == s {
            vp_assert!(n == ps as f32, "C03:norm2-perfect-square");
        }
    }
    vp_reached!();
}

/// binarize, approximate_eq, PartialEq
// @vp name=c03_binarize_eq_2x3 prop=C03 tier=quick t=480 fns=MatrixPreprocessing::binarize,binarize_mut,DenseMatrix::approximate_eq,PartialEq,Vec::approximate_eq size=2x3 dom=lattice(-4..4),f64
#[cfg_attr(kani, kani::proof)]
#[cfg_attr(kani, kani::unwind(9))]
pub fn c03_binarize_eq_2x3() {
    let (ai, a) = latarr::<6>(-4, 4);
    let (bi, b) = latarr::<6>(-4, 4);
    let (ti, t) = lat64(-4, 4);
    let m = DenseMatrix::from_array(2, 3, &a);
    let mb = DenseMatrix::from_array(2, 3, &b);
    let bz = m.binarize(t);
    let mut bzm = m.clone();
    bzm.binarize_mut(t);
    let mut alleq = true;
    let mut within1 = true;
    for r in 0..2 {
        for c in 0..3 {
            let k = r * 3 + c;
            vp_assert!(bz.get(r, c) == if ai[k] > ti { 1.0 } else { 0.0 } && bzm.get(r, c) == bz.get(r, c), "C03:binarize");
            if ai[k] != bi[k] {
                alleq = false;
            }
            if (ai[k] - bi[k]).abs() > 1 {
                within1 = false;
            }
        }
    }
    vp_assert!((m == mb) == alleq, "C03:eq");
    vp_assert!(m.approximate_eq(&mb, 1.0) == within1, "C03:approximate_eq");
    vp_assert!(m.approximate_eq(&mb, 0.5) == alleq, "C03:approximate_eq-tight");
    vp_assert!(BaseVector::approximate_eq(&a.to_vec(), &b.to_vec(), 1.0) == within1, "C03:vec-approximate_eq");
    vp_reached!();
}

/// equality tests on incompatible shapes return false (never panic)
// @vp name=c03_eq_incompatible prop=C03 tier=quick t=300 fns=DenseMatrix::approximate_eq,PartialEq,Vec::approximate_eq size=2x3-vs-3x2,2x3-vs-1x6,n=3-vs-n=2 dom=any-finite-f64
#[cfg_attr(kani, kani::proof)]
#[cfg_attr(kani, kani::unwind(9))]
pub fn c03_eq_incompatible() {
    let a: [f64; 6] = kani::any();
    let m = DenseMatrix::from_array(2, 3, &a);
    let t = DenseMatrix::from_array(3, 2, &a);
    let f = DenseMatrix::from_array(1, 6, &a);
    vp_assert!(!(m == t) && !(t == m) && !(m == f), "C03:eq-incompatible-false");
    vp_assert!(!m.approximate_eq(&t, f64::MAX) && !m.approximate_eq(&f, f64::MAX), "C03:approximate_eq-incompatible-false");
    let v3 = a[0..3].to_vec();
    let v2 = a[0..2].to_vec();
    vp_assert!(!BaseVector::approximate_eq(&v3, &v2, f64::MAX) && !BaseVector::approximate_eq(&v2, &v3, f64::MAX), "C03:vec-approximate_eq-incompatible-false");
    vp_reached!();
}

/// covariance: (m-1) * m^2 * cov_ij = sum_k (m x_ki - s_i)(m x_kj - s_j)
fn cov<const M: usize, const N: usize, const L: usize>() {
    let (xi, x) = latarr32::<L>(-3, 3);
    let mx = DenseMatrix::from_array(M, N, &x);
    let cv = mx.cov();
    vp_assert!(cv.shape() == (N, N), "C03:cov-shape");
    let m = M as i32;
    for i in 0..N {
        for j in 0..N {
            let mut si = 0i32;
            let mut sj = 0i32;
            for k in 0..M {
                si += xi[k * N + i];
                sj += xi[k * N + j];
            }
            let mut acc = 0i32;
            for k in 0..M {
                acc += (m * xi[k * N + i] - si) * (m * xi[k * N + j] - sj);
            }
            let want = acc as f32 / ((m - 1) * m * m) as f32;
            vp_assert!((cv.get(i, j) - want).abs() <= 32.0 * f32::EPSILON * (1.0 + want.abs()), "C03:cov");
            vp_assert!(same32(cv.get(i, j), cv.get(j, i)), "C03:cov-symmetric");
        }
    }
    vp_reached!();
}
// @vp name=c03_cov_2x2 prop=C03 tier=quick t=480 fns=DenseMatrix::cov,column_mean size=2x2 dom=lattice(-3..3),f32
h!(c03_cov_2x2, 7, cov::<2, 2, 4>());
// @vp name=c03_cov_3x2 prop=C03 tier=thorough t=2400 fns=DenseMatrix::cov,column_mean size=3x2 dom=lattice(-3..3),f32
h!(c03_cov_3x2, 9, cov::<3, 2, 6>());

/// pow_mut hands (x, p) to powf for every cell and stores the result in place (recorder)
// @vp name=c03_pow_2x2 prop=C03 tier=quick t=300 fns=DenseMatrix::pow_mut,pow size=2x2 dom=lattice(-4..4),f64 stubs=rec_powf64
#[cfg_attr(kani, kani::proof)]
#[cfg_attr(kani, kani::unwind(7))]
#[cfg_attr(kani, kani::stub(f64::powf, crate::common::rec_powf64))]
pub fn c03_pow_2x2() {
    let (ai, a) = latarr::<4>(-4, 4);
    let mut m = DenseMatrix::from_array(2, 2, &a);
    let p = m.pow(2.0);
    if cfg!(vp_playback) {
        for r in 0..2 {
            for c in 0..2 {
                vp_assert!(p.get(r, c) == (ai[r * 2 + c] * ai[r * 2 + c]) as f64, "C03:pow");
            }
        }
    } else {
        vp_assert!(nlog64() == 8, "C03:pow-powf-calls");
        // every cell was offered exactly once, with exponent 2
        let mut seen = [false; 4];
        for k in 0..4 {
            vp_assert!(getlog64(2 * k + 1) == 2.0, "C03:pow-exponent");
            for r in 0..2 {
                for c in 0..2 {
                    if !seen[r * 2 + c] && getlog64(2 * k) == a[r * 2 + c] {
                        seen[r * 2 + c] = true;
                        break;
                    }
                }
            }
        }
        for r in 0..2 {
            for c in 0..2 {
                // surrogate powf(b, e) = b: result cell holds the surrogate of its own entry
                vp_assert!(p.get(r, c) == a[r * 2 + c], "C03:pow-in-place");
            }
        }
    }
    vp_reached!();
}
